/*
 * Sequential contracts for librfn/messageq.c (C10): the queue as a bounded FIFO of fixed buffers,
 * every geometry.  Real <stdatomic.h> (CBMC's sequential model of the atomics).
 *
 * Abstract view (ghost, harness-owned): g_h = messages received and not yet released ("held"),
 * g_c = messages claimed and not yet received (sent or not).  Ring layout, cyclic from the oldest
 * held slot:  held^g_h  claimed^g_c  free^(Q - g_h - g_c).
 *
 * MQ_INV:  1 <= Q <= 32, g_h + g_c <= Q, receivep < Q, sendp == (receivep + g_c) % Q,
 *          num_free == Q - g_h - g_c, and a full flag is set only on a slot of the claimed region
 *          (any subset of it: sends may be reordered among claimed messages).
 */
#ifndef MESSAGEQ_SEQ_CONTRACT_H_
#define MESSAGEQ_SEQ_CONTRACT_H_
#include "verif.h"
#include "librfn/messageq.h"

extern unsigned g_h, g_c;

#define MQ_Q(mq) ((unsigned)(mq)->queue_len)
/* slot i lies in the claimed region [receivep, receivep + g_c) cyclic */
#define MQ_IN_CLAIMED(mq, i) ((i) < MQ_Q(mq) && (((i) + MQ_Q(mq) - (mq)->receivep) % MQ_Q(mq)) < g_c)
#define MQ_FLAG(mq, i) ((((mq)->full_flags) >> (i)) & 1u)
#define MQ_FLAG_OK(mq, i) (!MQ_FLAG(mq, i) || MQ_IN_CLAIMED(mq, i))
#define MQ_FLAGS_OK4(mq, i) (MQ_FLAG_OK(mq, i) && MQ_FLAG_OK(mq, (i) + 1) && MQ_FLAG_OK(mq, (i) + 2) && MQ_FLAG_OK(mq, (i) + 3))
#define MQ_FLAGS_OK(mq)                                                                          \
	(MQ_FLAGS_OK4(mq, 0u) && MQ_FLAGS_OK4(mq, 4u) && MQ_FLAGS_OK4(mq, 8u) && MQ_FLAGS_OK4(mq, 12u) && \
	 MQ_FLAGS_OK4(mq, 16u) && MQ_FLAGS_OK4(mq, 20u) && MQ_FLAGS_OK4(mq, 24u) && MQ_FLAGS_OK4(mq, 28u))
#define MQ_INV(mq)                                                                               \
	(MQ_Q(mq) >= 1 && MQ_Q(mq) <= 32 && (mq)->msg_len >= 1 && g_h + g_c <= MQ_Q(mq) && (mq)->receivep < MQ_Q(mq) && \
	 (mq)->sendp == ((mq)->receivep + g_c) % MQ_Q(mq) && (mq)->num_free == MQ_Q(mq) - g_h - g_c && MQ_FLAGS_OK(mq))
#define MQ_NEXT(mq, i) ((unsigned)(i) + 1 >= MQ_Q(mq) ? 0u : (unsigned)(i) + 1)

#ifndef VERIF_NATIVE
void *messageq_claim(messageq_t *mq)
REQUIRES(MQ_INV(mq))
ENSURES((RESULT == (void *)0) == (g_h + g_c == MQ_Q(mq)))
ENSURES(RESULT != (void *)0 ==> RESULT == (void *)(mq->basep + (size_t)OLD(mq->sendp) * mq->msg_len))
ENSURES(RESULT != (void *)0 ==> mq->sendp == MQ_NEXT(mq, OLD(mq->sendp)) && mq->num_free == OLD(mq->num_free) - 1)
ENSURES(RESULT == (void *)0 ==> mq->sendp == OLD(mq->sendp) && mq->num_free == OLD(mq->num_free))
ENSURES(mq->full_flags == OLD(mq->full_flags) && mq->receivep == OLD(mq->receivep))
ASSIGNS(mq->num_free, mq->sendp);

void messageq_send(messageq_t *mq, void *msg)
REQUIRES(MQ_INV(mq))
REQUIRES(__CPROVER_same_object(msg, mq->basep) && (size_t)__CPROVER_POINTER_OFFSET(msg) % mq->msg_len == 0)
REQUIRES(MQ_IN_CLAIMED(mq, (unsigned)((size_t)__CPROVER_POINTER_OFFSET(msg) / mq->msg_len)))
ENSURES(mq->full_flags == (OLD(mq->full_flags) | (1u << (unsigned)((size_t)__CPROVER_POINTER_OFFSET(msg) / mq->msg_len))))
ASSIGNS(mq->full_flags);

void *messageq_receive(messageq_t *mq)
REQUIRES(MQ_INV(mq))
ENSURES((RESULT != (void *)0) == (((OLD(mq->full_flags) >> OLD(mq->receivep)) & 1u) == 1u))
ENSURES(RESULT != (void *)0 ==> RESULT == (void *)(mq->basep + (size_t)OLD(mq->receivep) * mq->msg_len) &&
	mq->receivep == MQ_NEXT(mq, OLD(mq->receivep)) && mq->full_flags == (OLD(mq->full_flags) & ~(1u << OLD(mq->receivep))))
ENSURES(RESULT == (void *)0 ==> mq->receivep == OLD(mq->receivep) && mq->full_flags == OLD(mq->full_flags))
ENSURES(mq->num_free == OLD(mq->num_free) && mq->sendp == OLD(mq->sendp))
ASSIGNS(mq->full_flags, mq->receivep);

void messageq_release(messageq_t *mq, void *msg)
REQUIRES(MQ_INV(mq) && g_h >= 1)
ENSURES(mq->num_free == OLD(mq->num_free) + 1)
ASSIGNS(mq->num_free);

void messageq_init(messageq_t *mq, void *basep, size_t base_len, size_t msg_len)
REQUIRES(msg_len >= 1 && msg_len <= 65535 && base_len / msg_len >= 1 && base_len / msg_len <= 32)
ENSURES(mq->basep == (char *)basep && mq->msg_len == msg_len && mq->queue_len == base_len / msg_len)
ENSURES(mq->num_free == base_len / msg_len && mq->sendp == 0 && mq->full_flags == 0 && mq->receivep == 0)
ASSIGNS(*mq);
#endif
#endif
