/*
 * Contracts for librfn/pack.c (C12), every function that has a body.
 *
 * Cursor well-formedness PK_WF: [basep, endp) is exactly one object of size < 2^31 (rf_pack_remaining returns int); p is
 * basep + off with 0 <= off < 2^31, possibly beyond endp (the sticky overflow state).
 *
 * Contract of an n-byte item (from the statement):
 *   p' == p + n always; basep, endp unchanged;
 *   if off + n <= size: bytes [off, off+n) written in the named order (pack) / value assembled
 *   from them (unpack); otherwise nothing transferred, unpack returns 0.
 *   Frame (assigns): pack->p and, when the item fits, exactly its n bytes.
 */
#ifndef PACK_CONTRACT_H_
#define PACK_CONTRACT_H_
#include "verif.h"
#include "librfn/pack.h"

#define PK_LIMIT 0x80000000ll

#ifndef VERIF_NATIVE
#define PK_OFF(pack) ((long long)__CPROVER_POINTER_OFFSET((pack)->p))
#define PK_SIZE(pack) ((long long)__CPROVER_OBJECT_SIZE((pack)->basep))
#define PK_WF(pack)                                                                              \
	(__CPROVER_same_object((pack)->basep, (pack)->endp) && __CPROVER_same_object((pack)->basep, (pack)->p) && \
	 __CPROVER_POINTER_OFFSET((pack)->basep) == 0 && (long long)__CPROVER_POINTER_OFFSET((pack)->endp) == PK_SIZE(pack) && \
	 PK_SIZE(pack) < PK_LIMIT && 0 <= PK_OFF(pack) && PK_OFF(pack) < PK_LIMIT)
#define PK_FITS(pack, n) (PK_OFF(pack) + (long long)(n) <= PK_SIZE(pack))
/* the same test evaluated on the pre-state cursor, usable in ensures clauses */
#define PK_FITTED(pack, n) ((long long)__CPROVER_POINTER_OFFSET(OLD((pack)->p)) + (long long)(n) <= PK_SIZE(pack))
#define PK_ADVANCES(pack, n)                                                                     \
	ENSURES((pack)->p == OLD((pack)->p) + (n) && (pack)->basep == OLD((pack)->basep) && (pack)->endp == OLD((pack)->endp))
/* byte k of the item, addressed through the pre-state cursor */
#define PK_B(pack, k) (OLD((pack)->p)[k])

void rf_pack_init(rf_pack_t *pack, void *p, unsigned int sz)
ENSURES(pack->basep == (uint8_t *)p && pack->p == (uint8_t *)p && pack->endp == (uint8_t *)p + sz)
ASSIGNS(*pack);

int rf_pack_consumed(rf_pack_t *pack)
REQUIRES(PK_WF(pack))
ENSURES((long long)RESULT == PK_OFF(pack))
ASSIGNS();

int rf_pack_remaining(rf_pack_t *pack)
REQUIRES(PK_WF(pack))
ENSURES((long long)RESULT == PK_SIZE(pack) - PK_OFF(pack))
ASSIGNS();

void rf_pack_s16le(rf_pack_t *pack, int16_t s16)
REQUIRES(PK_WF(pack))
PK_ADVANCES(pack, 2)
ENSURES(PK_FITTED(pack, 2) ==> PK_B(pack, 0) == (uint8_t)((uint16_t)s16 & 0xff) && PK_B(pack, 1) == (uint8_t)((uint16_t)s16 >> 8))
ASSIGNS(pack->p; PK_FITS(pack, 2) : __CPROVER_object_upto(pack->p, 2));

void rf_pack_u16be(rf_pack_t *pack, uint16_t u16)
REQUIRES(PK_WF(pack))
PK_ADVANCES(pack, 2)
ENSURES(PK_FITTED(pack, 2) ==> PK_B(pack, 0) == (uint8_t)(u16 >> 8) && PK_B(pack, 1) == (uint8_t)(u16 & 0xff))
ASSIGNS(pack->p; PK_FITS(pack, 2) : __CPROVER_object_upto(pack->p, 2));

void rf_pack_u16le(rf_pack_t *pack, uint16_t u16)
REQUIRES(PK_WF(pack))
PK_ADVANCES(pack, 2)
ENSURES(PK_FITTED(pack, 2) ==> PK_B(pack, 0) == (uint8_t)(u16 & 0xff) && PK_B(pack, 1) == (uint8_t)(u16 >> 8))
ASSIGNS(pack->p; PK_FITS(pack, 2) : __CPROVER_object_upto(pack->p, 2));

void rf_pack_s32le(rf_pack_t *pack, int32_t s32)
REQUIRES(PK_WF(pack))
PK_ADVANCES(pack, 4)
ENSURES(PK_FITTED(pack, 4) ==> PK_B(pack, 0) == (uint8_t)((uint32_t)s32) && PK_B(pack, 1) == (uint8_t)((uint32_t)s32 >> 8) &&
	PK_B(pack, 2) == (uint8_t)((uint32_t)s32 >> 16) && PK_B(pack, 3) == (uint8_t)((uint32_t)s32 >> 24))
ASSIGNS(pack->p; PK_FITS(pack, 4) : __CPROVER_object_upto(pack->p, 4));

void rf_pack_u32le(rf_pack_t *pack, uint32_t u32)
REQUIRES(PK_WF(pack))
PK_ADVANCES(pack, 4)
ENSURES(PK_FITTED(pack, 4) ==> PK_B(pack, 0) == (uint8_t)(u32) && PK_B(pack, 1) == (uint8_t)(u32 >> 8) &&
	PK_B(pack, 2) == (uint8_t)(u32 >> 16) && PK_B(pack, 3) == (uint8_t)(u32 >> 24))
ASSIGNS(pack->p; PK_FITS(pack, 4) : __CPROVER_object_upto(pack->p, 4));

char rf_unpack_char(rf_pack_t *pack)
REQUIRES(PK_WF(pack))
PK_ADVANCES(pack, 1)
ENSURES(RESULT == (PK_FITTED(pack, 1) ? (char)PK_B(pack, 0) : (char)0))
ASSIGNS(pack->p);

int8_t rf_unpack_s8(rf_pack_t *pack)
REQUIRES(PK_WF(pack))
PK_ADVANCES(pack, 1)
ENSURES(RESULT == (PK_FITTED(pack, 1) ? (int8_t)PK_B(pack, 0) : (int8_t)0))
ASSIGNS(pack->p);

uint8_t rf_unpack_u8(rf_pack_t *pack)
REQUIRES(PK_WF(pack))
PK_ADVANCES(pack, 1)
ENSURES(RESULT == (PK_FITTED(pack, 1) ? PK_B(pack, 0) : (uint8_t)0))
ASSIGNS(pack->p);

uint16_t rf_unpack_u16le(rf_pack_t *pack)
REQUIRES(PK_WF(pack))
PK_ADVANCES(pack, 2)
ENSURES(RESULT == (PK_FITTED(pack, 2) ? (uint16_t)(PK_B(pack, 0) + 256u * PK_B(pack, 1)) : (uint16_t)0))
ASSIGNS(pack->p);

uint32_t rf_unpack_u32le(rf_pack_t *pack)
REQUIRES(PK_WF(pack))
PK_ADVANCES(pack, 4)
ENSURES(RESULT == (PK_FITTED(pack, 4) ? (uint32_t)PK_B(pack, 0) + ((uint32_t)PK_B(pack, 1) << 8) + ((uint32_t)PK_B(pack, 2) << 16) + ((uint32_t)PK_B(pack, 3) << 24) : 0u))
ASSIGNS(pack->p);

/* byte-array items: frame only (content is proved for one watched index in the harness, pattern P8) */
void rf_pack_bytes(rf_pack_t *pack, void *p, unsigned int sz)
REQUIRES(PK_WF(pack) && (long long)sz < PK_LIMIT)
REQUIRES(p == NULL || (__CPROVER_r_ok(p, sz) && !__CPROVER_same_object(p, pack->basep)))
PK_ADVANCES(pack, sz)
ASSIGNS(pack->p; PK_FITS(pack, sz) : __CPROVER_object_upto(pack->p, sz));

void rf_unpack_bytes(rf_pack_t *pack, void *p, unsigned int sz)
REQUIRES(PK_WF(pack) && (long long)sz < PK_LIMIT)
REQUIRES(p == NULL || (__CPROVER_w_ok(p, sz) && !__CPROVER_same_object(p, pack->basep)))
PK_ADVANCES(pack, sz)
ASSIGNS(pack->p; p != NULL : __CPROVER_object_upto(p, sz));
#endif /* !VERIF_NATIVE */

#endif
