/*
 * Contracts for librfn/rotenc.c (C19).
 *
 * Ghost state (harness-owned): g_latched = the 16-bit quarter-step position as of the most
 * recent visit of the detent state 0 (the statement's "most recent time the encoder rested
 * at the detent state").  The harness performs the ghost update after each decode step.
 *
 * delta(from, to) is written from the statement: +1 for a clockwise single-bit transition
 * (Gray-code cycle 00 -> 01 -> 11 -> 10 -> 00), -1 for the reverse, 0 otherwise (repeat,
 * two-bit jump).
 */
#ifndef ROTENC_CONTRACT_H_
#define ROTENC_CONTRACT_H_
#include "verif.h"
#include "librfn/rotenc.h"

#define ROT_CW(a, b) (((a) == 0 && (b) == 1) || ((a) == 1 && (b) == 3) || ((a) == 3 && (b) == 2) || ((a) == 2 && (b) == 0))
#define ROT_DELTA(a, b) (ROT_CW(a, b) ? 1 : (ROT_CW(b, a) ? -1 : 0))

extern uint16_t g_latched;

#ifndef VERIF_NATIVE
void rotenc_decode(rotenc_t *r, uint8_t state)
REQUIRES(state <= 3 && r->last_state <= 3)
ENSURES(r->internal_count == (uint16_t)(OLD(r->internal_count) + ROT_DELTA(OLD(r->last_state), state)))
ENSURES(r->last_state == state)
ENSURES(state != 0 ==> r->count == OLD(r->count))
ENSURES(state == 0 ==> (uint8_t)r->count == ((r->internal_count >> 2) & 0xff))
ASSIGNS(*r);
/* rotenc_count / rotenc_count14 have no DFCC contract of their own: their postconditions mention the ghost
 * and are asserted by the harness around every decode step (pattern P2) */
#endif
#endif
