/*
 * Contracts for librfn/wavheader.c (C13, C14).
 *
 * WAV_WALK_LEN(wh): the number of bytes the field walk of the codec consumes for the fields
 * held in *wh, in 64-bit arithmetic (written from the layout in the statement: RIFF header 12,
 * fmt chunk header 8 + 16 mandatory bytes, cb_size and either the 22-byte extension or
 * fmt_chunk_size-18 skipped bytes when fmt_chunk_size >= 18, optional 12-byte fact chunk,
 * 8-byte data chunk header).
 */
#ifndef WAV_CONTRACT_H_
#define WAV_CONTRACT_H_
#include "verif.h"
#include "librfn/wavheader.h"

#define WAV_IS(id, a, b, c, d) ((id)[0] == (a) && (id)[1] == (b) && (id)[2] == (c) && (id)[3] == (d))
#define WAV_HAS_FACT(wh) WAV_IS((wh)->fact_chunk_id, 'f', 'a', 'c', 't')
#define WAV_EXT_LEN(wh) ((wh)->fmt_chunk_size >= 18 ? 2ll + ((wh)->cb_size == 22 ? 22ll : (long long)(wh)->fmt_chunk_size - 18) : 0ll)
#define WAV_WALK_LEN(wh) (12ll + 8 + 16 + WAV_EXT_LEN(wh) + (WAV_HAS_FACT(wh) ? 12 : 0) + 8)

/* sample width in bytes of a format, from the statement (16-bit PCM: 2, 32-bit PCM and float: 4) */
#define WAV_BYTES(f) ((f) == RF_WAVHEADER_S16LE ? 2u : 4u)
#define WAV_FMT_OK(f) ((f) == RF_WAVHEADER_S16LE || (f) == RF_WAVHEADER_S32LE || (f) == RF_WAVHEADER_FLOAT)
/* "within 32-bit size limits": every size field of the header can hold its value; the API takes the rate and
 * the channel count as int and computes the byte rate in int, so its 32-bit limit is INT_MAX */
#define WAV_ARGS_FIT(rate, ch, f)                                                                \
	((rate) >= 1 && (ch) >= 1 && (unsigned long long)(ch) * WAV_BYTES(f) <= 0xffffull &&       \
	 (unsigned long long)(rate) * (unsigned long long)(ch) * WAV_BYTES(f) <= 0x7fffffffull)
#define WAV_ZERO4(a) ((a)[0] == 0 && (a)[1] == 0 && (a)[2] == 0 && (a)[3] == 0)
#define WAV_ZERO16(a) (WAV_ZERO4(a) && WAV_ZERO4((a) + 4) && WAV_ZERO4((a) + 8) && WAV_ZERO4((a) + 12))
/*
 * Shape of a header made by rf_wavheader_init (+ set_num_frames): plain PCM (16-byte fmt chunk, no
 * fact chunk) or IEEE float (18-byte fmt chunk with cb_size 0, 12-byte fact chunk); every field that
 * is not carried by the encoding is zero, so that decode(encode(h)) can be field-wise identical.
 */
#define WAV_INIT_SHAPE(wh)                                                                       \
	(WAV_IS((wh)->chunk_id, 'R', 'I', 'F', 'F') && WAV_IS((wh)->format, 'W', 'A', 'V', 'E') &&  \
	 WAV_IS((wh)->fmt_chunk_id, 'f', 'm', 't', ' ') && WAV_IS((wh)->data_chunk_id, 'd', 'a', 't', 'a') && \
	 (wh)->cb_size == 0 && (wh)->valid_bits_per_sample == 0 && (wh)->channel_mask == 0 && WAV_ZERO16((wh)->sub_format) && \
	 (((wh)->audio_format == 1 && (wh)->fmt_chunk_size == 16 && WAV_ZERO4((wh)->fact_chunk_id) &&  \
	   (wh)->fact_chunk_size == 0 && (wh)->sample_length == 0) ||                               \
	  ((wh)->audio_format == 3 && (wh)->fmt_chunk_size == 18 && WAV_HAS_FACT(wh) && (wh)->fact_chunk_size == 12)))
/* RIFF chunk size == bytes that follow the field in a file carrying exactly the declared data */
#define WAV_SIZES_CONSISTENT(wh) ((unsigned long long)(wh)->chunk_size == (unsigned long long)(WAV_WALK_LEN(wh) - 8) + (wh)->data_chunk_size)

#ifndef VERIF_NATIVE
void rf_wavheader_init(rf_wavheader_t *wh, int sfreq, int num_channels, rf_wavheader_format_t format)
REQUIRES(WAV_FMT_OK(format) && WAV_ARGS_FIT(sfreq, num_channels, format))
ENSURES(WAV_INIT_SHAPE(wh))
ENSURES(wh->audio_format == (format == RF_WAVHEADER_FLOAT ? 3 : 1))
ENSURES(wh->num_channels == num_channels && wh->sample_rate == (uint32_t)sfreq)
ENSURES(wh->block_align == num_channels * WAV_BYTES(format) && wh->bits_per_sample == 8 * WAV_BYTES(format))
ENSURES(wh->byte_rate == (uint32_t)sfreq * (uint32_t)wh->block_align)
ENSURES(wh->data_chunk_size == 0 && WAV_SIZES_CONSISTENT(wh))
ASSIGNS(*wh);

void rf_wavheader_set_num_frames(rf_wavheader_t *wh, unsigned int num_frames)
REQUIRES(WAV_INIT_SHAPE(wh) && WAV_SIZES_CONSISTENT(wh))
REQUIRES((unsigned long long)num_frames * wh->block_align + (unsigned long long)(WAV_WALK_LEN(wh) - 8) <= 0xffffffffull)
REQUIRES(wh->fmt_chunk_size == 16 || (unsigned long long)num_frames * wh->num_channels <= 0xffffffffull)
ENSURES(wh->data_chunk_size == num_frames * (uint32_t)wh->block_align)
ENSURES((unsigned long long)wh->data_chunk_size == (unsigned long long)num_frames * wh->block_align)
ENSURES(WAV_SIZES_CONSISTENT(wh))
ASSIGNS(wh->chunk_size, wh->data_chunk_size, wh->sample_length);

int rf_wavheader_encode(rf_wavheader_t *wh, uint8_t *p, unsigned int sz)
REQUIRES(sz < 0x80000000u && wh->fmt_chunk_size <= 0x7fffff00u)
ENSURES((long long)RESULT == WAV_WALK_LEN(wh))
ASSIGNS(__CPROVER_object_upto(p, sz));

int rf_wavheader_decode(const uint8_t *p, unsigned int sz, rf_wavheader_t *wh)
REQUIRES(sz < 0x80000000u)
ENSURES(RESULT < 0 || (long long)RESULT > (long long)sz || RESULT >= RF_WAVHEADER_MIN_SIZE)
ENSURES(RESULT >= 0 ==> (long long)RESULT == WAV_WALK_LEN(wh))
ASSIGNS(*wh);

int rf_wavheader_validate(rf_wavheader_t *wh)
ENSURES(RESULT <= 0)
ENSURES(RESULT == 0 ==> WAV_IS(wh->chunk_id, 'R', 'I', 'F', 'F') && WAV_IS(wh->format, 'W', 'A', 'V', 'E') &&
	WAV_IS(wh->fmt_chunk_id, 'f', 'm', 't', ' ') && WAV_IS(wh->data_chunk_id, 'd', 'a', 't', 'a') &&
	(unsigned long long)wh->chunk_size >= (uint32_t)(12u + wh->fmt_chunk_size + wh->fact_chunk_size))
ASSIGNS();

rf_wavheader_format_t rf_wavheader_get_format(rf_wavheader_t *wh)
ENSURES(RESULT == RF_WAVHEADER_UNKNOWN || RESULT == RF_WAVHEADER_S16LE || RESULT == RF_WAVHEADER_S32LE || RESULT == RF_WAVHEADER_FLOAT)
ASSIGNS();
#endif
#endif
