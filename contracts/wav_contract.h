/*
 * Contracts for librfn/wavheader.c (C13, C14).
 *
 * WAV_WALK_LEN(wh): the number of bytes the field walk of the codec consumes for the fields
 * held in *wh, in 64-bit arithmetic (written from the layout in the statement: RIFF header 12,
 * fmt chunk header 8 + 16 mandatory bytes, cb_size and either the 22-byte extension or
 * fmt_chunk_size-18 skipped bytes when fmt_chunk_size >= 18, optional 12-byte fact chunk,
 * 8-byte data chunk header).
 */
#ifndef WAV_CONTRACT_H_
#define WAV_CONTRACT_H_
#include "verif.h"
#include "librfn/wavheader.h"

#define WAV_IS(id, a, b, c, d) ((id)[0] == (a) && (id)[1] == (b) && (id)[2] == (c) && (id)[3] == (d))
#define WAV_HAS_FACT(wh) WAV_IS((wh)->fact_chunk_id, 'f', 'a', 'c', 't')
#define WAV_EXT_LEN(wh) ((wh)->fmt_chunk_size >= 18 ? 2ll + ((wh)->cb_size == 22 ? 22ll : (long long)(wh)->fmt_chunk_size - 18) : 0ll)
#define WAV_WALK_LEN(wh) (12ll + 8 + 16 + WAV_EXT_LEN(wh) + (WAV_HAS_FACT(wh) ? 12 : 0) + 8)

#ifndef VERIF_NATIVE
int rf_wavheader_decode(const uint8_t *p, unsigned int sz, rf_wavheader_t *wh)
REQUIRES(sz < 0x80000000u)
ENSURES(RESULT < 0 || (long long)RESULT > (long long)sz || RESULT >= RF_WAVHEADER_MIN_SIZE)
ENSURES(RESULT >= 0 ==> (long long)RESULT == WAV_WALK_LEN(wh))
ASSIGNS(*wh);

int rf_wavheader_validate(rf_wavheader_t *wh)
ENSURES(RESULT <= 0)
ENSURES(RESULT == 0 ==> WAV_IS(wh->chunk_id, 'R', 'I', 'F', 'F') && WAV_IS(wh->format, 'W', 'A', 'V', 'E') &&
	WAV_IS(wh->fmt_chunk_id, 'f', 'm', 't', ' ') && WAV_IS(wh->data_chunk_id, 'd', 'a', 't', 'a') &&
	(unsigned long long)wh->chunk_size >= (uint32_t)(12u + wh->fmt_chunk_size + wh->fact_chunk_size))
ASSIGNS();

rf_wavheader_format_t rf_wavheader_get_format(rf_wavheader_t *wh)
ENSURES(RESULT == RF_WAVHEADER_UNKNOWN || RESULT == RF_WAVHEADER_S16LE || RESULT == RF_WAVHEADER_S32LE || RESULT == RF_WAVHEADER_FLOAT)
ASSIGNS();
#endif
#endif
