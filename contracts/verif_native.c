/*
 * Native replay runtime: `prog <entry> <replay-file>`.
 * The replay file carries lines "IN.<field>=<integer>" or "IN.<field>[i]=<integer>"
 * (everything else is ignored).  Exit 0: no obligation failed; 1: an obligation
 * failed (its name is printed as "FAILED: ..."); 3: the input does not satisfy
 * the harness precondition; 4: usage / unknown field.
 */
#include <stdio.h>
#include <stdlib.h>
#include <string.h>
#include <stdint.h>

struct verif_field {
	const char *name;
	size_t off, elsz, n;
	int is_signed;
};
struct verif_entry {
	const char *name;
	void (*fn)(void);
};
extern struct verif_field verif_fields[];
extern struct verif_entry verif_entries[];
extern void *verif_in_base;
extern size_t verif_in_size;

int verif_failed;
static const char *replay_path;

void verif_load_inputs(void)
{
	char line[512];
	FILE *f = fopen(replay_path, "r");
	if (!f) {
		perror(replay_path);
		exit(4);
	}
	memset(verif_in_base, 0, verif_in_size);
	while (fgets(line, sizeof(line), f)) {
		char name[128];
		unsigned long idx = 0;
		long long val;
		char *p = line, *q;
		if (strncmp(p, "IN.", 3))
			continue;
		p += 3;
		q = name;
		while (*p && *p != '[' && *p != '=' && q < name + sizeof(name) - 1)
			*q++ = *p++;
		*q = 0;
		if (*p == '[') {
			idx = strtoul(p + 1, &p, 10);
			if (*p == ']')
				p++;
		}
		if (*p != '=')
			continue;
		val = strtoll(p + 1, NULL, 0);
		if (val == INT64_MAX)
			val = (long long)strtoull(p + 1, NULL, 0);
		struct verif_field *fl;
		for (fl = verif_fields; fl->name; fl++)
			if (!strcmp(fl->name, name))
				break;
		if (!fl->name)
			continue; /* padding or a field of another harness version */
		if (idx >= fl->n)
			continue;
		char *dst = (char *)verif_in_base + fl->off + idx * fl->elsz;
		switch (fl->elsz) {
		case 1: { uint8_t v = (uint8_t)val; memcpy(dst, &v, 1); break; }
		case 2: { uint16_t v = (uint16_t)val; memcpy(dst, &v, 2); break; }
		case 4: { uint32_t v = (uint32_t)val; memcpy(dst, &v, 4); break; }
		case 8: { uint64_t v = (uint64_t)val; memcpy(dst, &v, 8); break; }
		default: fprintf(stderr, "bad field size\n"); exit(4);
		}
	}
	fclose(f);
}

int main(int argc, char **argv)
{
	if (argc < 3) {
		fprintf(stderr, "usage: %s <entry> <replay-file>\n", argv[0]);
		return 4;
	}
	replay_path = argv[2];
	setvbuf(stdout, NULL, _IONBF, 0);
	for (struct verif_entry *e = verif_entries; e->name; e++)
		if (!strcmp(e->name, argv[1])) {
			e->fn();
			printf(verif_failed ? "REPLAY: obligation failed\n" : "REPLAY: all obligations held\n");
			return verif_failed ? 1 : 0;
		}
	fprintf(stderr, "no such entry %s\n", argv[1]);
	return 4;
}
