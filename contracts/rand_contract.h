/* Contract for librfn/rand.c (C17): rand31_r is the Park-Miller minimal standard generator. */
#ifndef RAND_CONTRACT_H_
#define RAND_CONTRACT_H_
#include "verif.h"
#ifndef VERIF_NATIVE
uint32_t rand31_r(uint32_t *seedp)
REQUIRES(1 <= *seedp && *seedp <= 0x7ffffffeu)
ENSURES(RESULT == (uint32_t)((16807ull * OLD(*seedp)) % 0x7fffffffull))
ENSURES(*seedp == RESULT)
ENSURES(1 <= RESULT && RESULT <= 0x7ffffffeu)
ASSIGNS(*seedp);
#endif
#endif
