/*
 * verif.h - dual-mode support for the harnesses in /verif/harness
 *
 * CBMC mode (default): VASSERT/VASSUME/VCOVER map to the CPROVER primitives and
 * the input record IN is filled with nondeterministic values.
 *
 * Native mode (-DVERIF_NATIVE): the same harness is compiled with clang and the
 * sanitizers against the real sources; IN is filled from a replay file written
 * by run/check.py out of CBMC's counterexample trace; VASSERT reports the
 * obligation by name and makes the process exit 1, VASSUME exits 3 ("the
 * replayed input does not satisfy the harness precondition").
 *
 * Every nondeterministic choice of a harness goes through the input record, so
 * that the counterexample can be carried over verbatim.  The record is declared
 * with an X-macro so that the native loader knows the field names:
 *
 *   #define IN_FIELDS(S, A)  S(uint32_t, x)  A(uint8_t, buf, 16)
 *   VERIF_INPUTS(IN_FIELDS)
 */
#ifndef VERIF_H_
#define VERIF_H_

#include <stdint.h>
#include <stddef.h>
#include <stdbool.h>

/* contract clause macros: CPROVER syntax under CBMC, nothing natively */
#ifdef VERIF_NATIVE
#define REQUIRES(...)
#define ENSURES(...)
#define ASSIGNS(...)
#else
#define REQUIRES(...) __CPROVER_requires(__VA_ARGS__)
#define ENSURES(...) __CPROVER_ensures(__VA_ARGS__)
#define ASSIGNS(...) __CPROVER_assigns(__VA_ARGS__)
#define RESULT __CPROVER_return_value
#define OLD(x) __CPROVER_old(x)
#endif

#define VERIF_S_DECL(t, n) t n;
#define VERIF_A_DECL(t, n, k) t n[k];

#ifndef VERIF_NATIVE

#define VASSERT(c, msg) __CPROVER_assert((c), msg)
#define VASSUME(c) __CPROVER_assume(c)
/* bind a memory cell of a symbolic-size object to an input field: an assumption on the (nondeterministic)
 * initial content under CBMC - far cheaper than an array update - and a plain store natively */
#define VBIND(lhs, val) __CPROVER_assume((lhs) == (val))
#ifdef VERIF_COVER
#define VCOVER(c, msg) __CPROVER_cover(c)
#else
#define VCOVER(c, msg) ((void)0)
#endif
#define VERIF_ENTRIES(...)
#define VERIF_INPUTS(F)                                                        \
	struct in { F(VERIF_S_DECL, VERIF_A_DECL) } IN;                        \
	struct in nondet_struct_in(void);
#define VERIF_LOAD_INPUTS()                                                    \
	do {                                                                   \
		IN = nondet_struct_in();                                       \
	} while (0)

#else /* VERIF_NATIVE */

#include <stdio.h>
#include <stdlib.h>
#include <string.h>

extern int verif_failed;

#define VASSERT(c, msg)                                                        \
	do {                                                                   \
		if (!(c)) {                                                    \
			printf("FAILED: %s\n", msg);                           \
			verif_failed = 1;                                      \
		}                                                              \
	} while (0)
#define VASSUME(c)                                                             \
	do {                                                                   \
		if (!(c)) {                                                    \
			printf("ASSUME-NOT-MET: %s\n", #c);                    \
			exit(3);                                               \
		}                                                              \
	} while (0)
#define VCOVER(c, msg) ((void)0)
#define VBIND(lhs, val) ((lhs) = (val))

struct verif_field {
	const char *name;
	size_t off, elsz, n;
	int is_signed;
};
#define VERIF_S_TAB(t, n) { #n, offsetof(struct in, n), sizeof(t), 1, ((t)-1 < (t)0) },
#define VERIF_A_TAB(t, n, k) { #n, offsetof(struct in, n), sizeof(t), k, ((t)-1 < (t)0) },
#define VERIF_INPUTS(F)                                                        \
	struct in { F(VERIF_S_DECL, VERIF_A_DECL) } IN;                        \
	struct verif_field verif_fields[] = { F(VERIF_S_TAB, VERIF_A_TAB){ 0, 0, 0, 0, 0 } }; \
	void *verif_in_base = &IN;                                             \
	size_t verif_in_size = sizeof(IN);
void verif_load_inputs(void);
#define VERIF_LOAD_INPUTS() verif_load_inputs()

struct verif_entry {
	const char *name;
	void (*fn)(void);
};
#define E(f) { #f, f },
#define VERIF_ENTRIES(...)                                                     \
	struct verif_entry verif_entries[] = { __VA_ARGS__{ 0, 0 } };

#endif /* VERIF_NATIVE */

#endif /* VERIF_H_ */
