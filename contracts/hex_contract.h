/*
 * Contracts for librfn/hex.c (C18), attached by redeclaration after the definition; enforced with
 * goto-instrument --dfcc.  Included by harness/C18_hex.c after "librfn/hex.c", so the ghost capture buffer
 * (g_text, g_len, g_lost) is in scope.  Clauses are pure expressions (HOWTO).
 *
 * These are the frame (assigns) and range clauses; the clauses that need a walk over the text (cursor position,
 * value of the pair) are asserted by the harness as plain C predicates, which the native replay can evaluate too.
 */
#ifndef HEX_CONTRACT_H_
#define HEX_CONTRACT_H_
#ifndef VERIF_NATIVE

/* writes nothing but the caller's cursor; result is a byte or -1; -1 leaves a NULL cursor */
int hex_get_byte(const char *s, const char **p)
REQUIRES(__CPROVER_w_ok(p, sizeof(*p)))
ASSIGNS(*p)
ENSURES(RESULT >= -1 && RESULT <= 255)
ENSURES(RESULT >= 0 || *p == NULL);

/* hex_dump_to_file / hex_dump carry no DFCC contract here: a redeclaration would pin their parameter types, and an
 * API-compatible change of the prototype (say to const void *) must reach the checks instead of failing to compile.
 * Their frame - the dumped array is left unchanged - is an obligation of the harness (C18_hex.c, check_format). */

#endif
#endif
