/*
 * Contracts for librfn/console.c (C15).  console.c keeps its command table in a file-static array and its
 * helpers (do_tokenize, find_command, do_prompt) are static, so this header is included AFTER the real console.c.
 *
 * DFCC clauses must be pure expressions (DESIGN 2.2) and these contracts speak about "every argv[i]", "every byte
 * of the line", "the table up to its sentinel" - so they are written as plain-C predicates.  Each contract is used
 * twice, by the same text:
 *   - the ENFORCING harness (harness/C15_console.c: h_tokenize, h_find, h_prompt, h_builtin_*) calls the real
 *     function from an arbitrary state satisfying <f>_pre and asserts <f>_post;
 *   - the contract STUB <f>_contract (substituted at the call sites inside console_run / console_eval with
 *     goto-instrument --replace-calls) asserts <f>_pre and constructs an arbitrary state satisfying <f>_post
 *     (constructively: integers are chosen, pointers are built from them - no pointer is havocked and repaired).
 *
 * Console invariant between characters (protothread of console_run at its "wait for a character" point):
 *   CON_RING_OK   ring descriptor points at the console's own 16-byte array, both indices in range
 *   CON_CURSOR_OK scratch.buf <= bufp <= &scratch.buf[79]
 *   CON_LAST_NUL  scratch.buf[79] == 0   (never written by the editor: a full buffer dispatches instead)
 *   CON_TAIL_ZERO every byte of the line buffer at and after the cursor is zero, i.e. the buffer read as a C string
 *                 is exactly the line as edited so far (what the tokenizer will be handed on newline)
 *   TBL_INV       command table: non-NULL entries with non-NULL names up to a unique NULL-named sentinel at
 *                 index <= 31, sorted by name (strcmp, ascending, duplicates allowed), NULL after the sentinel
 */
#ifndef CONSOLE_CONTRACT_H_
#define CONSOLE_CONTRACT_H_
#include "verif.h"

#define CON_LINE 80 /* SCRATCH_SIZE: the line buffer */
#define CON_LAST (CON_LINE - 1)
#define CON_ARGS 4
#define TBL_SLOTS 32

/* offset of p in the line buffer if it points into it (0..79), else -1; never compares pointers of different objects */
static inline int con_line_off(const console_t *c, const char *p)
{
#ifndef VERIF_NATIVE
	if (!__CPROVER_same_object(p, c->scratch.buf))
		return -1;
	__CPROVER_size_t po = __CPROVER_POINTER_OFFSET(p), bo = __CPROVER_POINTER_OFFSET(c->scratch.buf);
#else
	uintptr_t po = (uintptr_t)p, bo = (uintptr_t)c->scratch.buf;
#endif
	if (po < bo || po - bo > CON_LAST)
		return -1;
	return (int)(po - bo);
}

#define CON_RING_OK(c)                                                                                        \
	((c)->ring.bufp == (uint8_t *)(c)->ringbuf && (c)->ring.buf_len == sizeof((c)->ringbuf) &&          \
	 atomic_load(&(c)->ring.readi) < sizeof((c)->ringbuf) && atomic_load(&(c)->ring.writei) < sizeof((c)->ringbuf))
#define CON_CURSOR_OK(c) (con_line_off((c), (c)->bufp) >= 0)
#define CON_LAST_NUL(c) ((c)->scratch.buf[CON_LAST] == 0)

static inline bool con_tail_zero(const console_t *c)
{
	int k = con_line_off(c, c->bufp);
	bool ok = k >= 0;
	for (int j = 0; j < CON_LINE; j++)
		ok = ok && (j < k || c->scratch.buf[j] == 0);
	return ok;
}

/* ------------------------------------------------------------------------------------------- command table */

#define NAME_MAX_LEN 4 /* bound of the table harnesses: command names have at most 4 characters (the built-ins: echo, help) */
/* strcmp written out; one of the two strings is a command name, so the loop ends within NAME_MAX_LEN + 1 characters */
static inline int ref_name_cmp(const char *a, const char *b)
{
	for (int j = 0; j <= NAME_MAX_LEN; j++) {
		unsigned char x = (unsigned char)a[j], y = (unsigned char)b[j];
		if (x != y)
			return x < y ? -1 : 1;
		if (!x)
			return 0;
	}
	return 0; /* not reached when either string has at most NAME_MAX_LEN characters */
}

/* index of the sentinel (first entry whose name is NULL); -1 if a NULL slot comes first or there is none */
static inline int tbl_sentinel(void)
{
	for (int i = 0; i < TBL_SLOTS; i++) {
		if (!cmd_table[i])
			return -1;
		if (!cmd_table[i]->name)
			return i;
	}
	return -1;
}

static inline bool tbl_inv(void)
{
	int s = tbl_sentinel();
	bool ok = s >= 0;
	for (int i = 0; i < TBL_SLOTS; i++) {
		if (i < s)
			ok = ok && cmd_table[i]->fn != NULL;
		if (i + 1 < s)
			ok = ok && ref_name_cmp(cmd_table[i]->name, cmd_table[i + 1]->name) <= 0;
		if (i > s)
			ok = ok && cmd_table[i] == NULL;
	}
	return ok && cmd_table[s]->fn != NULL;
}

/* ------------------------------------------------------------------------------------------- do_tokenize
 * pre : CON_LAST_NUL (strlen stays inside the line buffer)
 * post: 1 <= argc <= 4; argv[0] is the start of the line; every argv[i], i < 4, points into the line buffer, whose last
 *       byte is still NUL (so each is a NUL-terminated string inside the line buffer); argv[i >= argc] point at a NUL;
 *       every byte of the line is either unchanged or has been replaced by NUL (separators / quotes), byte 0 unchanged.
 * frame: scratch.buf[1..78], argc, argv
 */
#define TOK_PRE(c) CON_LAST_NUL(c)
static inline bool tok_post_args(const console_t *c)
{
	bool ok = c->argc >= 1 && c->argc <= CON_ARGS && c->argv[0] == c->scratch.buf && CON_LAST_NUL(c);
	for (int i = 0; i < CON_ARGS; i++) {
		int o = con_line_off(c, c->argv[i]);
		ok = ok && o >= 0;
		if (o >= 0 && i >= c->argc)
			ok = ok && c->scratch.buf[o] == 0;
	}
	return ok;
}
static inline bool tok_post_line(const console_t *c, const char *before)
{
	bool ok = c->scratch.buf[0] == before[0];
	for (int j = 1; j < CON_LINE; j++)
		ok = ok && (c->scratch.buf[j] == before[j] || c->scratch.buf[j] == 0);
	return ok;
}

/* ------------------------------------------------------------------------------------------- find_command
 * pre : TBL_INV; argv[0] is the start of the line buffer (TOK post) and CON_LAST_NUL (a NUL-terminated string inside it)
 * post: c->cmd is the first table entry before the sentinel whose name equals argv[0] exactly, else the sentinel
 *       (what console_run relies on: c->cmd == cmd_table[k] for some k <= sentinel index: a valid descriptor)
 * frame: c->cmd
 */
#define FIND_PRE(c) (tbl_inv() && (c)->argv[0] == (c)->scratch.buf && CON_LAST_NUL(c))
static inline int ref_find(const char *name) /* exact-name lookup written from the statement */
{
	int s = tbl_sentinel();
	for (int i = 0; i < TBL_SLOTS; i++)
		if (i < s && ref_name_cmp(name, cmd_table[i]->name) == 0)
			return i;
	return s;
}

/* ------------------------------------------------------------------------------------------- do_prompt
 * pre : -
 * post: every byte of the scratch union is zero (the line is empty), the cursor is at the start, the prompt was shown
 * frame: scratch, bufp
 */
static inline bool prompt_post(const console_t *c)
{
	bool ok = c->bufp == c->scratch.buf;
	for (unsigned j = 0; j < sizeof(c->scratch); j++)
		ok = ok && ((const uint8_t *)&c->scratch)[j] == 0;
	return ok;
}

/* ------------------------------------------------------------------------------------------- commands
 * A command is entered with the arguments of TOK post (1 <= argc <= 4, NUL-terminated strings inside the line buffer)
 * and c->pt == 0 (PT_SPAWN initialises it); it returns yielded / waiting / exited / failed; it may keep state in the
 * scratch union and in c->pt ("commands must parse their command line before storing state in the scratch buffers",
 * console.h) and must leave everything else of the console alone.
 */
#endif
