/*
 * Contracts for librfn/bitops.c (C16).  Attached to the real definitions by
 * prior declaration; the harness #includes the real bitops.c afterwards.
 * Oracle 1: CBMC's bit-vector primitives.  Oracle 2 (independent, plain C bit
 * loops) is asserted in the harness so that it also runs natively.
 */
#ifndef BITOPS_CONTRACT_H_
#define BITOPS_CONTRACT_H_
#include "verif.h"

#ifndef VERIF_NATIVE
int bitcnt(uint32_t x)
ENSURES(RESULT == __builtin_popcount(x))
ENSURES(0 <= RESULT && RESULT <= 32)
ASSIGNS();

int clz(uint32_t x)
ENSURES(x == 0 ? RESULT == 32 : RESULT == __builtin_clz(x))
ASSIGNS();

int ctz(uint32_t x)
ENSURES(x == 0 ? RESULT == 32 : RESULT == __builtin_ctz(x))
ASSIGNS();

int ilog2(uint32_t x)
REQUIRES(x != 0)
ENSURES(0 <= RESULT && RESULT <= 31 && (x >> RESULT) == 1)
ASSIGNS();
#endif

#endif
