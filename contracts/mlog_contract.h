/*
 * Contracts for librfn/mlog.c (C20).  mlog.c keeps its state in a file-static object, so this
 * header is included AFTER the real mlog.c: a contract may be attached to a redeclaration that
 * follows the definition (checked: a wrong clause fails).
 *
 * Ghost state (harness-owned): g_count = true number of messages since the last mlog_clear
 * (64 bit, never folds).  Representation invariant MLOG_INV ties the real counter to it:
 *   g_count < 0x7fffffff  ==> head == g_count
 *   g_count >= 0x7fffffff ==> head % 256 == g_count % 256 && 256 <= head < 0x7fffffff
 * Slot of message number m is m % 256; the oldest retained message is g_count - min(g_count, 256).
 */
#ifndef MLOG_CONTRACT_H_
#define MLOG_CONTRACT_H_
#include "verif.h"

extern uint64_t g_count;

#define MLOG_LINES 256u
#define MLOG_FOLD 0x7fffffffu
#define MLOG_INV                                                                                 \
	(g_count < MLOG_FOLD ? log.head == g_count                                               \
			     : (log.head % MLOG_LINES == g_count % MLOG_LINES && log.head >= MLOG_LINES && log.head < MLOG_FOLD))
#define MLOG_RETAINED ((g_count < MLOG_LINES) ? g_count : (uint64_t)MLOG_LINES)
/* slot of the k-th retained line, oldest first (k already known to be < MLOG_RETAINED) */
#define MLOG_SLOT(k) ((unsigned)((g_count - MLOG_RETAINED + (uint64_t)(k)) % MLOG_LINES))

#ifndef VERIF_NATIVE
static struct mlog_line *get_line(unsigned int n)
REQUIRES(MLOG_INV)
ENSURES((uint64_t)n >= MLOG_RETAINED ==> RESULT == (struct mlog_line *)0)
ENSURES((uint64_t)n < MLOG_RETAINED ==> RESULT == &log.line[MLOG_SLOT(n)])
ASSIGNS();

void vmlog(const char *fmt, va_list ap)
REQUIRES(MLOG_INV && g_count < 0xffffffffffff0000ull)
ENSURES(log.line[OLD(log.head) % MLOG_LINES].fmt == fmt)
ENSURES(log.head == (OLD(log.head) + 1 >= MLOG_FOLD ? OLD(log.head) + 1 - MLOG_LINES : OLD(log.head) + 1))
ASSIGNS(log.line[log.head % MLOG_LINES], log.head);

void vmlog_nice(const char *fmt, va_list ap)
REQUIRES(MLOG_INV)
ENSURES(OLD(log.head) >= MLOG_LINES ==> log.head == OLD(log.head))
ENSURES(OLD(log.head) < MLOG_LINES ==> log.head == OLD(log.head) + 1 && log.line[OLD(log.head)].fmt == fmt)
ASSIGNS(log.head < MLOG_LINES : log.line[log.head % MLOG_LINES], log.head);

void mlog_clear(void)
ENSURES(log.head == 0)
ASSIGNS(log.head);
#endif
#endif
