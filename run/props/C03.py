from api import H, prop, mut, claim, SHARED
# the return value relies on the invariant "timer queue sorted by cyclic due time", which fibre_timeout / duetime_cmp establish: their contracts are part of this property
Q = [h for h in SHARED["sched_quick"] if h.entry in ("h_next", "h_timeout", "h_cmp")]
T = [h for h in SHARED["sched_thorough"] if h.entry in ("h_next", "h_timeout", "h_cmp")]
IQ = [h for h in SHARED["irq"](3, 2, 2, ("quick",), 1500) if h.entry == "h_irq_next"]
IT = [h for h in SHARED["irq"](4, 3, 3, ("thorough",), 7200) if h.entry == "h_irq_next"]
prop("C03", "model_checking",
     SHARED["EXPL"] + " C03 reads the return-value clause of fibre_scheduler_next's contract (sequential harness: exact value in every case, with the state after the body ran) and adds the interruption "
     "harness: the same pass compiled against a shadow <stdatomic.h> whose every atomic operation first lets interrupt handlers post fibre_run_atomic requests; a ghost flag records whether a request was "
     "pending at the final check of the atomic queue and the obligation is 'pending at the final check => the call returns its time argument'.",
     Q + T + IQ + IT, trusted=SHARED["TRUST"] + ["interrupt handlers run to completion between two atomic operations of the main context (nested handlers included)"],
     assumptions=SHARED["ASSUME"], mc=SHARED["mc"])
claim("C03", "model_checking",
      "return-value clause of the fibre_scheduler_next step contract (CBMC, real code, abstract scheduler state) + the same pass under a shadow <stdatomic.h> that fires interrupt-context fibre_run_atomic requests before every atomic operation, ghost flag for 'pending at the final check'",
      "For every invariant state of a pool of 3 / 4 fibres, every time argument and every body result the returned wake-up time is exactly: the time argument if the fibre yielded or anything is runnable or requested, else the earliest pending due time, else now+0x7fffffff; under interruption at any atomic operation (any number of arrivals, up to the queue's capacity, at each) a request that completed before the final check forces the time argument.",
      "Bounded pool (labelled bounded); handlers run to completion; handle_atomic_runq is substituted by its interruption contract (enforced under C06). Requests that complete after the final check are outside the statement.",
      "DESIGN.md 5.C03")
mut("C03", "wakeup-ignores-atomic-queue", [("librfn/fibre.c", "\tif (!messageq_empty(&kernel.atomic_runq) || !list_empty(&kernel.runq))\n\t\treturn kernel.now;", "\tif (!list_empty(&kernel.runq))\n\t\treturn kernel.now;")], r"C03", skip_tests=True)
mut("C03", "wakeup-ignores-run-queue", [("librfn/fibre.c", "\tif (!messageq_empty(&kernel.atomic_runq) || !list_empty(&kernel.runq))\n\t\treturn kernel.now;", "\tif (!messageq_empty(&kernel.atomic_runq))\n\t\treturn kernel.now;")], r"C03", skip_tests=True)
mut("C03", "yield-falls-through-to-wakeup", [("librfn/fibre.c", "\t\tif (kernel.state == FIBRE_STATE_YIELDED)\n\t\t\treturn kernel.now;\n", "")], r"C03", skip_tests=True)
