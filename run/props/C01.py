from api import H, prop, mut, claim, SHARED
F = "harness/C01_fibre.c"
STUB = ["handle_atomic_runq:handle_atomic_runq_contract"]
FP = ["fibre_scheduler_next.function_pointer_call.1/verif_body"]

def sched(nf, pmax, tiers, timeout, which=None, parts=True):
    if parts:
        out = []
        for a in range(nf + 1):
            for b in range(nf + 1 - a):
                out += _sched(nf, pmax, tiers, timeout, which, a, b)
        # harnesses that do not depend on the queue shapes are run once
        seen, res = set(), []
        for h in out:
            key = h.entry if h.entry in ("h_initial", "h_cmp") else h.name
            if key not in seen:
                seen.add(key)
                res.append(h)
        return res
    return _sched(nf, pmax, tiers, timeout, which, None, None)

def _sched(nf, pmax, tiers, timeout, which, qa, qb):
    d = ["-DNF=%d" % nf, "-DPMAX=%d" % pmax] + (["-DFIX_NRQ=%d" % qa, "-DFIX_NTQ=%d" % qb] if qa is not None else [])
    b = "pool of %d fibres (every arrangement of run queue, timer queue, current fibre, stale tails), at most %d pending atomic requests in the pre-state; times, time base and history length unbounded" % (nf, pmax)
    tag = "_f%d_p%d" % (nf, pmax) + ("_rq%d_tq%d" % (qa, qb) if qa is not None else "")
    u = 9
    us = ["list_contains.0:%d" % (nf + 1), "handle_timerq.0:%d" % (nf + 1), "list_insert_sorted.0:%d" % (nf + 1),
          "handle_atomic_runq.0:%d" % (pmax + 1), "messageq_claim.0:2"]
    hs = [
      H("scheduler_next" + tag, F, "h_next", ["fibre_scheduler_next", "update_current_state", "handle_timerq", "get_next_task", "get_next_wakeup", "make_runnable", "fibre_self", "fibre_run"],
        defs=d, replace_calls=STUB, restrict_fp=FP, unwind=u, unwindset=us, timeout=timeout, tiers=tiers, solvers=("cadical", "minisat"), bounded=b),
      H("handle_atomic_runq" + tag, F, "h_drain", ["handle_atomic_runq", "make_runnable", "messageq_receive", "messageq_release"],
        defs=d, replace_calls=["fibre_run:fibre_run_contract"], unwind=u, unwindset=us, timeout=timeout, tiers=tiers, solvers=("cadical",), bounded=b),
      H("fibre_run" + tag, F, "h_run", ["fibre_run", "make_runnable"], defs=d, replace_calls=STUB, unwind=u, unwindset=us, timeout=timeout, tiers=tiers, solvers=("cadical",), bounded=b),
      H("fibre_kill" + tag, F, "h_kill", ["fibre_kill"], defs=d, replace_calls=STUB, unwind=u, unwindset=us, timeout=timeout, tiers=tiers, solvers=("cadical",), bounded=b),
      H("fibre_timeout" + tag, F, "h_timeout", ["fibre_timeout", "duetime_cmp", "list_insert_sorted"], defs=d, unwind=u, unwindset=us, timeout=timeout, tiers=tiers, solvers=("cadical",), bounded=b),
      H("fibre_run_atomic" + tag, F, "h_run_atomic", ["fibre_run_atomic", "messageq_claim", "messageq_send"], defs=d, unwind=u, unwindset=us, timeout=timeout, tiers=tiers, solvers=("cadical",), bounded=b),
      H("initial_state" + tag, F, "h_initial", ["fibre_init", "kernel (static initialiser)"], defs=d, unwind=u, unwindset=us, timeout=timeout, tiers=tiers, solvers=("cadical",), cover=False, bounded=b),
      H("comparators" + tag, F, "h_cmp", ["cyclecmp32", "duetime_cmp"], defs=d, unwind=u, unwindset=us, timeout=timeout, tiers=tiers, solvers=("cadical",)),
    ]
    if qb is not None and qb == nf:
        hs = [h for h in hs if h.entry != "h_timeout"]   # the running fibre is not asleep (scope): impossible when every fibre is on the timer queue
    return [h for h in hs if which is None or any(w in h.name for w in which)]

TRUST = ["symmetry reduction over fibre identities: pre-states have the run queue = fibres 0..a-1 and the timer queue = the next b fibres (in queue order); every state is such a state up to renaming of the pool, "
         "and neither the real code nor the specification depends on fibre addresses other than through equality (argued, not machine-checked; the NOSYM build of the harness drops it)",
         "the fibre body is a contract-only function (verif_body): any result, any invariant post-state with the same current fibre and time base - the closure of fibre_run / fibre_kill / one fibre_timeout / "
         "interrupt-context fibre_run_atomic, each of which is shown to preserve the invariant by its own harness",
         "sequential semantics of <stdatomic.h> here; interruption timing is C06",
         "induction over histories from the per-operation step contracts (paper argument)"]
ASSUME = ["scope of the record: at most one unsatisfied fibre_timeout per dispatch, at most 8 undrained fibre_run_atomic requests, time arguments within 2^31 ticks of every pending due time",
          "one query per (run queue length, timer queue length) pair; together the partitions cover every pair within the pool"]
EXPL = ("Per-operation step contracts on the real fibre.c (with the real list.c, messageq.c, util.c inlined) against an abstract scheduler state (run queue, timer queue, pending atomic requests, "
        "current fibre, last result, time base, per-fibre due time / restart point / recorded state): from an arbitrary state satisfying the scheduler invariant one real API function is run and the complete "
        "post-state, read back through an abstraction function, is compared with a specification function written from the statements of C01-C03. fibre_scheduler_next is verified with handle_atomic_runq "
        "substituted by its contract (enforced on the real loop by its own harness) and the dispatched body replaced by a contract-only function that first checks the pre-dispatch state and then produces "
        "any invariant state. Times are fully symbolic 32-bit values (every placement of the window, both wrap points).")

def _mc(tier, recs):
    import re
    parts = set()
    for h, r in recs:
        m = re.search(r"_f(\d+)(?:_p(\d+))?(?:_a\d+)?_rq(\d+)_tq(\d+)$", h.name)
        if m:
            parts.add((int(m.group(1)), int(m.group(2) or 8), int(m.group(3)), int(m.group(4))))   # interruption harnesses: up to 8 pending
    ops = len({h.entry for h, r in recs})
    # abstract list arrangements per partition up to renaming: 1 (symmetry-reduced); x choices of current fibre (nf+1) x last result (4) x pending sequences (sum nf^k, k<=pmax)
    st = 0
    for nf, pmax, a, b in parts:
        st += (nf + 1) * 4 * sum(nf ** k for k in range(pmax + 1))
    return {"states": st, "transitions": st * max(ops, 1) // 1, "traces_validated_against_impl": st * max(ops, 1),
            "rule_model_checking": "states = abstract pre-states distinguished by the discrete part of the input record, summed over the (run queue length, timer queue length) partitions discharged in this run: "
                                   "(current fibre or none) x (last result) x (sequence of pending atomic requests up to the tier's bound); the 32-bit time base, due times, restart points and stale tail pointers are "
                                   "symbolic on top of that and not counted. transitions = states x operations verified (each real operation is verified from every such state; no separate model, so "
                                   "traces_validated_against_impl = transitions)"}

Q = sched(3, 3, ("quick",), 1500)
T = sched(4, 8, ("thorough",), 7200)
# cross-check of the symmetry reduction: the same contracts over arbitrary (un-renamed, un-partitioned) queue contents, pool 3
NS = sched(3, 3, ("thorough",), 10800, parts=False)
for _h in NS:
    _h.name += "_nosym"
    _h.defs.append("-DNOSYM")
    _h.note = "no symmetry reduction, no partition: run queue and timer queue are arbitrary disjoint duplicate-free sequences over the pool"
T = T + [h for h in NS if h.entry not in ("h_initial", "h_cmp")]
prop("C01", "model_checking", EXPL, Q + T, trusted=TRUST, assumptions=ASSUME, mc=_mc)
prop("C02", "model_checking", EXPL + " C02 reads the timer clauses of the same contracts: never early, due order, cyclic arithmetic, cancellation by run request / kill; the comparators are proved over their full 2^64 domain.",
     [h for h in Q + T if h.entry in ("h_next", "h_timeout", "h_drain", "h_cmp", "h_run", "h_kill")], trusted=TRUST, assumptions=ASSUME, mc=_mc)
claim("C01", "model_checking",
      "CBMC harness-enforced step contracts (plain-C spec functions from the statement) on the real fibre.c / list.c / messageq.c against an abstract scheduler state; modular substitution of handle_atomic_runq and of the fibre body by contract; induction over operations",
      "Every API operation from every invariant state of a pool of 3 (quick) / 4 (thorough) fibres with up to 3 / 8 pending atomic requests, fully symbolic times; the whole post-state is compared with the specification. Histories of any length by induction; the pool size is the bound.",
      "Bounded in the number of fibres (CBMC has no inductive heap predicates) - labelled bounded, not proved. Symmetry reduction over fibre identities and the closure argument for fibre bodies are paper arguments. Sequential atomics.",
      "DESIGN.md 5.C01")
claim("C02", "model_checking",
      "the timer clauses of the C01 step contracts (fibre_timeout, handle_timerq inside fibre_scheduler_next, cancellation in fibre_run / fibre_kill / handle_atomic_runq) plus full-domain contracts on cyclecmp32 and duetime_cmp (CBMC)",
      "Timeouts are never early, expire in due order in the first pass at or after their due time, for every placement of the 32-bit time base (symbolic, both wrap points), and are cancelled by any other wake-up or kill; pool of 3 / 4 fibres, histories of any length by induction. Comparators: complete proof over all argument pairs.",
      "As C01 (bounded pool, symmetry reduction, body closure argument).",
      "DESIGN.md 5.C02")
mut("C01", "run-coalescing-check-dropped", [("librfn/fibre.c", "\tif (!list_contains(&kernel.runq, &f->link, NULL)) {\n\t\t(void) list_remove(&kernel.timerq, &f->link);\n\t\tlist_insert(&kernel.runq, &f->link);\n\t}", "\t(void) list_remove(&kernel.timerq, &f->link);\n\tlist_insert(&kernel.runq, &f->link);")], r"C01", skip_tests=True)
mut("C01", "stale-timer-after-run", [("librfn/fibre.c", "\t\t(void) list_remove(&kernel.timerq, &f->link);\n", "")], r"C0[12]", skip_tests=True)
mut("C01", "no-restart-after-exit", [("librfn/fibre.c", "\t\tPT_INIT(&kernel.current->priv);\n", "")], r"C01", skip_tests=True)
mut("C01", "F1-reverted-drain-through-fibre_run", [("librfn/fibre.c", "\t\tmake_runnable(*f);\n\t\tmessageq_release", "\t\tfibre_run(*f);\n\t\tmessageq_release")], r"C01", skip_tests=True)
mut("C01", "kill-ignores-atomic-requests", [("librfn/fibre.c", "\tbool res = false;\n\n\thandle_atomic_runq();\n", "\tbool res = false;\n")], r"C01", skip_tests=True)
mut("C02", "duetime-cmp-linear", [("librfn/fibre.c", "\treturn f1->duetime - f2->duetime;", "\treturn f1->duetime < f2->duetime ? -1 : f1->duetime > f2->duetime;")], r"C02", skip_tests=True)
mut("C02", "timerq-strictly-before", [("librfn/fibre.c", "cyclecmp32(timeout_fibre->duetime, kernel.now) <= 0) {", "cyclecmp32(timeout_fibre->duetime, kernel.now) < 0) {")], r"C02", skip_tests=True)
mut("C02", "timeout-true-only-when-past", [("librfn/fibre.c", "\tif (cyclecmp32(duetime, kernel.now) <= 0)\n\t\treturn true;", "\tif (cyclecmp32(duetime, kernel.now) < 0)\n\t\treturn true;")], r"C02", skip_tests=True)

# ---------------------------------------------------------------------------------------------------- C06 / C03 interruption
G = "harness/C06_fibre_irq.c"
def irq(nf, pmax, amax, tiers, timeout):
    """interruption harnesses.  Everything except the bounded multi-iteration cross-check of the drain loop runs with up to 8 requests
    pending at entry and any number of requests (up to the queue's capacity) arriving at every atomic operation: not bounded in arrivals."""
    full = ["-DNF=%d" % nf, "-DPMAX=8", "-DAMAX=9", "-DIRQ_BURST=8"]
    small = ["-DNF=%d" % nf, "-DPMAX=%d" % pmax, "-DAMAX=%d" % amax]
    us = ["list_contains.0:%d" % (nf + 1), "handle_timerq.0:%d" % (nf + 1), "list_insert_sorted.0:%d" % (nf + 1), "messageq_claim.0:11"]
    bf = "pool of %d fibres; up to 8 requests pending at entry (the real capacity) and any number of interrupt-context requests, up to capacity, arriving at every atomic operation of the call" % nf
    bs = "pool of %d fibres, at most %d requests pending at entry and at most %d interrupt-context requests arriving during the call (at any of its atomic operations)" % (nf, pmax, amax)
    NOTE = "thread-modular query (interrupt handlers fire inside the call): no native replay"
    out = []
    for a in range(nf + 1):
        for q in range(nf + 1 - a):
            part = ["-DFIX_NRQ=%d" % a, "-DFIX_NTQ=%d" % q]
            out += [
              H("irq_drain_loop_step_f%d_rq%d_tq%d" % (nf, a, q), G, "h_irq_drain_step", ["handle_atomic_runq", "make_runnable", "messageq_receive", "messageq_release"],
                defs=full + part, shadow=True, unwind=20, unwindset=us + ["handle_atomic_runq.0:3"], timeout=timeout, tiers=tiers, solvers=("cadical", "minisat"), replayable=False,
                bounded=bf + "; loop iterations unbounded (loop-cut rule: one iteration from an arbitrary invariant state, induction)", note=NOTE),
              H("irq_handle_atomic_runq_f%d_p%d_a%d_rq%d_tq%d" % (nf, pmax, amax, a, q), G, "h_irq_drain", ["handle_atomic_runq", "make_runnable", "messageq_receive", "messageq_release"],
                defs=small + part, shadow=True, unwind=12, unwindset=us + ["handle_atomic_runq.0:%d" % (pmax + amax + 1)], timeout=timeout, tiers=[t for t in tiers if t == "thorough"],
                solvers=("cadical", "minisat"), bounded=bs, replayable=False, note=NOTE + "; bounded multi-iteration run of the whole loop, cross-check of the step contract"),
              H("irq_scheduler_next_f%d_rq%d_tq%d" % (nf, a, q), G, "h_irq_next", ["fibre_scheduler_next", "get_next_wakeup", "messageq_empty", "update_current_state", "handle_timerq"],
                defs=full + part, shadow=True, unwind=20, unwindset=us, replace_calls=["handle_atomic_runq:handle_atomic_runq_irq_contract"], restrict_fp=FP, timeout=timeout, tiers=tiers,
                solvers=("cadical", "minisat"), bounded=bf, replayable=False, note=NOTE),
            ]
    out += [
      H("irq_fibre_run_atomic_f%d" % nf, G, "h_irq_run_atomic", ["fibre_run_atomic", "messageq_claim", "messageq_send", "add_taint"], defs=full + ["-DFIX_NRQ=1", "-DFIX_NTQ=1"], shadow=True,
        unwind=20, unwindset=us, timeout=timeout, tiers=tiers, solvers=("cadical", "minisat"), bounded=bf, replayable=False, note=NOTE),
      H("irq_fibre_eventq_send_f%d" % nf, G, "h_irq_eventq_send", ["fibre_eventq_send", "fibre_eventq_claim", "fibre_eventq_receive", "fibre_eventq_release", "fibre_eventq_init", "fibre_run_atomic"],
        defs=full + ["-DFIX_NRQ=1", "-DFIX_NTQ=1"], shadow=True, unwind=20, unwindset=us, timeout=timeout, tiers=tiers, solvers=("cadical", "minisat"), bounded=bf, replayable=False, note=NOTE),
    ]
    return out

SHARED.update(sched_quick=Q, sched_thorough=T, irq=irq, TRUST=TRUST, ASSUME=ASSUME, EXPL=EXPL, mc=_mc)
