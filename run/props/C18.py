from api import H, prop, mut, claim
import re
F = "harness/C18_hex.c"
D = ["-D__NO_CTYPE"]
FN = ["hex_get_byte"]
SOLVERS = ("minisat", "cadical")   # measured: minisat answers the step queries 5-10x faster than cadical here; both run, first verdict wins

# hex_get_byte has three overlapping goto-formed loops (hex.c: goto next_line out of the white-space loop, the white-space loop itself, goto next_line after
# skipping a junk line).  cbmc's dynamic unwinding counters are not reset when such a loop is left, which makes unwinding assertions fail spuriously, so these
# three loops are unwound by goto-instrument (with unwinding assertions, hence still sound).  With `left` characters between the starting point and the NUL:
# at most `left` newlines can be consumed by the first loop, `left` white-space characters by the second, and every junk line has at least two characters.
def _hexloops(left):
    return ["hex_get_byte.0:%d" % (left + 1), "hex_get_byte.1:%d" % (left + 1), "hex_get_byte.2:%d" % (left // 2 + 1)]

def _cost(left, timeout):
    """the driver starts harnesses in order of decreasing timeout: give the expensive partitions (many characters left to read) a slightly larger one so that they start first;
    they are also the ones where a second back end only costs CPU (cadical never won a step query with >= 4 characters left)"""
    return dict(timeout=timeout + 20 * left, solvers=SOLVERS if left < 4 else SOLVERS[:1])

def _step(L, tiers, timeout):
    """hex_get_byte step contract on arbitrary text: one query per (string length, first call | continuation at offset | ended sequence)."""
    hs = []
    for n in range(L + 1):
        d = D + ["-DLMAX=%d" % max(n, 1), "-DNFIX=%d" % n]
        kw = dict(unwind=12, unwindset=["strchr.0:%d" % (n + 2)], tiers=tiers)
        hs.append(H("step_len%d_first" % n, F, "h_step", FN, defs=d + ["-DFIRSTFIX=1"], static_unwind=_hexloops(n), **_cost(n, timeout),
                    bounded="first call (s != NULL) on every string of exactly %d non-NUL characters (heap object of %d bytes), any stale cursor" % (n, n + 1), **kw))
        for off in range(n + 1):
            hs.append(H("step_len%d_cont_off%d" % (n, off), F, "h_step", FN, defs=d + ["-DFIRSTFIX=0", "-DNULLFIX=0", "-DOFFFIX=%d" % off],
                        static_unwind=_hexloops(n - off), **_cost(n - off, timeout),
                        bounded="continuation call (s == NULL) with the cursor at offset %d of every string of exactly %d non-NUL characters" % (off, n), **kw))
        hs.append(H("step_len%d_ended" % n, F, "h_step", FN, defs=d + ["-DFIRSTFIX=0", "-DNULLFIX=1"], static_unwind=_hexloops(0), **_cost(0, timeout),
                    bounded="continuation call with a NULL cursor (the sequence has ended); string of %d characters" % n, **kw))
    return hs

def _frame(n, tiers, timeout):
    """the DFCC contract of contracts/hex_contract.h (assigns only *p, result range, -1 leaves NULL) enforced by goto-instrument on the same harness"""
    d = D + ["-DLMAX=%d" % max(n, 1), "-DNFIX=%d" % n]
    return [H("frame_len%d_%s" % (n, nm), F, "h_step", FN, defs=d + fx, static_unwind=_hexloops(n), enforce=["hex_get_byte"], unwind=12,
              unwindset=["strchr.0:%d" % (n + 2)], timeout=timeout, tiers=tiers, solvers=SOLVERS,
              bounded="DFCC-enforced frame/range contract of hex_get_byte on strings of exactly %d characters, %s" % (n, what))
            for nm, fx, what in (("first", ["-DFIRSTFIX=1"], "first call"), ("cont", ["-DFIRSTFIX=0"], "continuation from any offset or NULL"))]

def _dump(sizes, tiers, timeout, stdout_sizes=(), whole_upto=4):
    """dump format per array length; round trip as a step lemma on the real dumped text (all k, both ends of the gap) and, for short arrays, as a whole loop"""
    hs = []
    for m in sizes:
        text = 2 * m + (m + 15) // 16
        d = D + ["-DMMAX=%d" % max(m, 1), "-DMFIX=%d" % m]
        kw = dict(unwind=max(m, 16) + 2, unwindset=["strchr.0:%d" % (text + 2), "text_copy.0:161"], timeout=timeout, tiers=tiers, solvers=SOLVERS)
        b = "arrays of exactly %d bytes (all byte values)" % m
        hs.append(H("dump_len%d" % m, F, "h_dump", ["hex_dump_to_file"], defs=d, bounded=b, **kw))
        if m in stdout_sizes:
            hs.append(H("dump_stdout_len%d" % m, F, "h_dump_stdout", ["hex_dump", "hex_dump_to_file"], defs=d, bounded=b, **kw))
        if m <= whole_upto:
            hs.append(H("roundtrip_len%d" % m, F, "h_roundtrip", ["hex_dump_to_file", "hex_get_byte"], defs=d, static_unwind=_hexloops(2), bounded=b, **kw))
        hs.append(H("roundtrip_step_len%d" % m, F, "h_roundtrip_step", ["hex_dump_to_file", "hex_get_byte"], defs=d, static_unwind=_hexloops(2),
                    bounded=b + ", one hex_get_byte call after k = 0..%d delivered bytes, cursor at either end of the gap before pair k" % m, **kw))
    return hs

QUICK_L, THOROUGH_L = 5, 7
QUICK_M = [0, 1, 2, 3, 4, 15, 16, 17]
THOROUGH_M = list(range(0, 34))
HS = (_step(QUICK_L, ("quick",), 600) + _frame(3, ("quick",), 600) + _dump(QUICK_M, ("quick",), 600, stdout_sizes=(17,), whole_upto=4) +
      _step(THOROUGH_L, ("thorough",), 3000) + _frame(4, ("thorough",), 3000) + _dump(THOROUGH_M, ("thorough",), 3000, stdout_sizes=(0, 16, 33), whole_upto=6))

def _mc(tier, recs):
    """Counts the abstract cases that the discharged queries of this run covered; derived from the harness names (which carry the partition)."""
    text_states, dump_states, calls = set(), set(), 0
    for h, r in recs:
        m = re.match(r"(?:step|frame)_len(\d+)_(first|ended|cont)(?:_off(\d+))?$", h.name)
        if m:
            n = int(m.group(1))
            if m.group(2) == "cont" and m.group(3) is None:      # frame_*_cont: cursor symbolic over 0..n and NULL
                cases = [(n, "cont", o) for o in range(n + 1)] + [(n, "ended", None)]
            else:
                cases = [(n, m.group(2), int(m.group(3)) if m.group(3) else None)]
            text_states.update(cases)
            calls += len(cases)
            continue
        m = re.match(r"roundtrip_step_len(\d+)$", h.name)
        if m:
            mm = int(m.group(1))
            cases = [(mm, k, end) for k in range(mm + 1) for end in ("after pair k-1", "at pair k")]
            dump_states.update(cases)
            calls += len(cases)
            continue
        m = re.match(r"roundtrip_len(\d+)$", h.name)
        if m:
            calls += int(m.group(1)) + 1                         # m+1 real hex_get_byte calls in sequence on the real dump
            dump_states.add((int(m.group(1)), "whole", None))
            continue
        m = re.match(r"dump(?:_stdout)?_len(\d+)$", h.name)
        if m:
            calls += 1
            dump_states.add((int(m.group(1)), "dump", h.entry))
    st = len(text_states) + len(dump_states)
    return {"states": st, "transitions": calls, "traces_validated_against_impl": calls,
            "rule_model_checking": "states = distinct abstract start states covered by the queries discharged in this run, each symbolically over ALL contents: "
                                   "(string length, first call | continuation at cursor offset | ended sequence) for arbitrary text - %d of them - plus (array length, bytes already "
                                   "delivered, cursor end of the gap) / (array length, whole loop) / (array length, dump entry point) for dumped text - %d of them; counted by this function from the "
                                   "partition encoded in the names of the discharged harnesses; transitions = executions of the real hex_get_byte / hex_dump_to_file from those states "
                                   "(one per step state, m+1 per whole round trip); there is no separate model - every transition is the real hex.c under CBMC - hence "
                                   "traces_validated_against_impl = transitions. Byte contents are not enumerated (symbolic), so these numbers count partitions, not inputs."
                                   % (len(text_states), len(dump_states))}

prop("C18", "model_checking",
     "Bounded stand-in (DESIGN 5.C18, P5). (a) Step contract of the real hex_get_byte on arbitrary text: a string of n non-NUL characters in a heap object of exactly n+1 bytes "
     "(quick n <= %d, thorough n <= %d), every content, as a first call (s != NULL) or a continuation (s == NULL) with the cursor at every offset 0..n, or NULL. Obligations: result in -1..255; "
     "on success the cursor lies inside the string at least two characters beyond the start (so at most n/2 calls succeed and -1 is reached: induction on the cursor); on -1 the cursor is NULL; "
     "a NULL cursor gives -1 again; the text is unchanged; every read is inside the object (CBMC pointer checks); and the value agrees with a reference reader written from the statement "
     "(optional 0x, either case, white space, newline, 'address:' prefix at the start of a line) wherever the statement determines it. One query per (n, first | continuation offset | ended). "
     "(b) hex_dump_to_file / hex_dump with the C library output calls captured in a ghost buffer: two lower-case digits per byte, newline after every 16th pair, array unchanged; "
     "round trip as a step lemma on the real dumped text (after k delivered bytes, cursor at either end of the gap before pair k, the call returns byte k and leaves the cursor in the next gap; "
     "k = m gives -1 and NULL) for array lengths %s (quick) / 0..33 (thorough), all byte values, plus the whole dump-parse loop for arrays of <= 4 (quick) / 6 (thorough) bytes. "
     "hex_get_byte's loops are goto-formed and run over caller-sized data: they are unwound statically with unwinding assertions, so every result is bounded by the string / array length."
     % (QUICK_L, THOROUGH_L, ",".join(map(str, QUICK_M))),
     HS, mc=_mc,
     trusted=["CBMC's models of malloc (exact object bounds), strchr, isspace, isxdigit (C locale)",
              "the harness's capture of fprintf/fputc/fputs (literal text, %c, %x, %s) stands for the C library's formatted output"],
     assumptions=["text length bound: %d (quick) / %d (thorough) characters; longer strings are not covered - every two-token interaction the record names "
                  "(0x at the end, lone digit before the NUL, pair after 'addr:', newline before a pair, address prefix on a later line) fits into 5 characters" % (QUICK_L, THOROUGH_L),
                  "address prefix: value demanded only where the statement is unambiguous - the address is one or more letters/digits directly followed by ':', on a line reached as a "
                  "first call or by running over a newline; continuation calls use the s == NULL convention",
                  "termination and stickiness of -1 for call sequences follow by induction from the per-call contract (cursor strictly increases inside the string; NULL is absorbing)",
                  "round trip on arrays longer than the whole-loop bound is by induction over the step lemma (gap invariant), array lengths as listed",
                  "plain char is signed (x86-64) in this build"])
claim("C18", "model_checking",
      "CBMC harness-enforced step contract on the real hex.c over exactly-sized heap strings, partitioned by (length, first/continuation, cursor offset); reference reader from the statement; "
      "captured output for the dump; round-trip step lemma on real dumped text; DFCC frame contract; static unwinding of the goto loops with unwinding assertions",
      "Every string of up to 5 (quick) / 7 (thorough) characters with every content, every cursor position and both calling conventions: memory safety (no read outside the exactly-sized object), "
      "result range, cursor progress / NULL end protocol, values where the statement determines them; every byte array of the listed lengths (0..4, 15..17 quick; 0..33 thorough) for dump format and round trip.",
      "Bounded stand-in, never counted as proved: strings longer than the bound and arrays longer than 33 bytes are outside; induction over calls is a paper argument on top of the machine-checked step contract.",
      "DESIGN.md 5.C18")

# self-test mutants (realistic, from why_tests_cant: end-of-string safety, end protocol, line handling, dump format)
mut("C18", "0x-test-reads-past-nul", [("librfn/hex.c", "if ('0' == s[0] && 'x' == s[1])", "if ('x' == s[1] && '0' == s[0])")], r"dereference failure")
mut("C18", "lone-digit-accepted-as-pair", [("librfn/hex.c", "if (isxdigit((int) s[0]) && isxdigit((int) s[1])) {", "if (isxdigit((int) s[0])) {")],
    r"stays within the string|returns only values in 0\.\.255|returned as its value")
mut("C18", "end-cursor-not-cleared", [("librfn/hex.c", "\ts = *p = strchr(s, '\\n');", "\ts = strchr(s, '\\n');")], r"on -1 the cursor becomes NULL|returns -1")
mut("C18", "dump-15-pairs-per-line", [("librfn/hex.c", "i<16 && sz > 0;", "i<15 && sz > 0;")], r"16 pairs per line|two characters per byte plus one newline")
mut("C18", "dump-upper-case", [("librfn/hex.c", "\treturn 'a' - 10 + h;", "\treturn 'A' - 10 + h;")], r"lower-case")
mut("C18", "nibble-case-fold-mask", [("librfn/hex.c", "return (h & ~('a' - 'A')) - 'A' + 10;", "return (h & ~('a' - 'B')) - 'A' + 10;")], r"returned as its value|returns only values|returns byte k", skip_tests=True)
