from api import H, prop, mut, claim
F = "harness/C18_hex.c"
D = ["-D__NO_CTYPE"]
FN = ["hex_get_byte"]

# hex_get_byte has three overlapping goto-formed loops (hex.c: goto next_line out of the white-space loop, the white-space loop itself, goto next_line after
# skipping a junk line).  cbmc's dynamic unwinding counters are not reset when such a loop is left, which makes unwinding assertions fail spuriously, so these
# three loops are unwound by goto-instrument (with unwinding assertions, hence still sound).  With `left` characters between the starting point and the NUL:
# at most `left` newlines can be consumed by the first loop, `left` white-space characters by the second, and every junk line has at least two characters.
def _hexloops(left):
    return ["hex_get_byte.0:%d" % (left + 1), "hex_get_byte.1:%d" % (left + 1), "hex_get_byte.2:%d" % (left // 2 + 1)]

def _step(L, tiers, timeout):
    hs = []
    for n in range(L + 1):
        d = D + ["-DLMAX=%d" % max(n, 1), "-DNFIX=%d" % n]
        kw = dict(unwind=12, unwindset=["strchr.0:%d" % (n + 2)], timeout=timeout, tiers=tiers, solvers=("minisat", "cadical"))
        hs.append(H("step_len%d_first" % n, F, "h_step", FN, defs=d + ["-DFIRSTFIX=1"], static_unwind=_hexloops(n),
                    bounded="first call (s != NULL) on every string of exactly %d characters (heap object of %d bytes), any stale cursor" % (n, n + 1), **kw))
        for off in range(n + 1):
            hs.append(H("step_len%d_cont_off%d" % (n, off), F, "h_step", FN, defs=d + ["-DFIRSTFIX=0", "-DNULLFIX=0", "-DOFFFIX=%d" % off],
                        static_unwind=_hexloops(n - off),
                        bounded="continuation call (s == NULL) with the cursor at offset %d of every string of exactly %d characters" % (off, n), **kw))
        hs.append(H("step_len%d_ended" % n, F, "h_step", FN, defs=d + ["-DFIRSTFIX=0", "-DNULLFIX=1"], static_unwind=_hexloops(0),
                    bounded="continuation call with a NULL cursor; string of %d characters" % n, **kw))
    return hs

def _dump(sizes, tiers, timeout, stdout_sizes=()):
    hs = []
    for m in sizes:
        text = 2 * m + (m + 15) // 16
        d = D + ["-DMMAX=%d" % max(m, 1), "-DMFIX=%d" % m]
        kw = dict(unwind=max(m, 16) + 2, unwindset=["strchr.0:%d" % (text + 2), "text_copy.0:161"], timeout=timeout, tiers=tiers, solvers=("minisat", "cadical"))
        b = "arrays of exactly %d bytes" % m
        hs.append(H("dump_len%d" % m, F, "h_dump", ["hex_dump_to_file"], defs=d, bounded=b, **kw))
        if m in stdout_sizes:
            hs.append(H("dump_stdout_len%d" % m, F, "h_dump_stdout", ["hex_dump", "hex_dump_to_file"], defs=d, bounded=b, **kw))
        if m <= 4:
            hs.append(H("roundtrip_len%d" % m, F, "h_roundtrip", ["hex_dump_to_file", "hex_get_byte"], defs=d, static_unwind=_hexloops(2), bounded=b, **kw))
        hs.append(H("roundtrip_step_len%d" % m, F, "h_roundtrip_step", ["hex_dump_to_file", "hex_get_byte"], defs=d, static_unwind=_hexloops(2), bounded=b, **kw))
    return hs

def _frame(n, tiers, timeout):
    d = D + ["-DLMAX=%d" % max(n, 1), "-DNFIX=%d" % n]
    return [H("frame_len%d_%s" % (n, nm), F, "h_step", FN, defs=d + fx, static_unwind=_hexloops(n), enforce=["hex_get_byte"], unwind=12,
              unwindset=["strchr.0:%d" % (n + 2)], timeout=timeout, tiers=tiers, solvers=("minisat", "cadical"),
              bounded="DFCC-enforced frame/range contract of hex_get_byte (contracts/hex_contract.h) on strings of exactly %d characters" % n)
            for nm, fx in (("first", ["-DFIRSTFIX=1"]), ("cont", ["-DFIRSTFIX=0"]))]
prop("C18", "model_checking", "wip", _frame(3, ("quick",), 600) + _step(5, ("quick",), 600) + _dump([0, 1, 2, 3, 4, 15, 16, 17], ("quick",), 600, stdout_sizes=(17,)))
