"""C08 - protothread macros: per-template step contracts built from the real macros (DESIGN 5.C08, pattern P5)."""
from api import H, prop, mut, claim

F = "harness/C08_protothreads.c"
PT = "include/librfn/protothreads.h"

_MACROS = {
    "leaf": ["PT_BEGIN", "PT_END", "PT_INIT", "PT_YIELD", "PT_WAIT_UNTIL", "PT_EXIT_ON", "PT_FAIL_ON"],
    "t1": ["PT_BEGIN", "PT_END", "PT_INIT", "PT_YIELD", "PT_WAIT_UNTIL"],
    "t2": ["PT_BEGIN", "PT_END", "PT_INIT", "PT_WAIT"],
    "t3": ["PT_SPAWN", "PT_CHILD_OK", "PT_YIELD", "PT_WAIT_UNTIL", "PT_EXIT_ON", "PT_FAIL_ON", "PT_INIT", "PT_BEGIN", "PT_END"],
    "t4": ["PT_SPAWN_AND_CHECK", "PT_EXIT_ON", "PT_FAIL_ON", "PT_EXIT", "PT_FAIL", "PT_YIELD", "PT_WAIT", "PT_BEGIN", "PT_END"],
    "callee": ["PT_BEGIN", "PT_END", "PT_YIELD", "PT_WAIT", "PT_WAIT_UNTIL", "PT_FAIL_ON"],
    "t5": ["PT_CALL", "PT_YIELD", "PT_WAIT", "PT_BEGIN", "PT_END"],
    "mid": ["PT_SPAWN_AND_CHECK", "PT_YIELD", "PT_BEGIN", "PT_END"],
    "t6": ["PT_SPAWN", "PT_CHILD_OK", "PT_SPAWN_AND_CHECK", "PT_WAIT", "PT_YIELD", "PT_BEGIN", "PT_END"],
    "t7": ["PT_BEGIN_FIBRE", "PT_WAIT_UNTIL", "PT_YIELD", "PT_END"],
}
_NOTES = {
    "leaf": "LEAF (child of T3/T4/T6): exit before the first blocking point, yield, wait-until, fail-on",
    "t1": "T1: PT_YIELD inside a conditional inside a loop inside a conditional, PT_WAIT_UNTIL in the other arm",
    "t2": "T2: PT_WAIT twice in a row and inside nested loops (outer bound a symbolic persistent variable)",
    "t3": "T3: PT_SPAWN of LEAF inside a loop, PT_CHILD_OK, own blocking point in the failure arm, stale child state arbitrary",
    "t4": "T4: PT_EXIT_ON, PT_FAIL_ON, PT_SPAWN_AND_CHECK, PT_EXIT, PT_FAIL",
    "callee": "CALLEE (child of T5): yield in a loop, wait, wait-until with a side-effecting condition, fail-on",
    "t5": "T5: PT_CALL inside a loop between two blocking points of the caller",
    "mid": "MID (middle level of T6): PT_SPAWN_AND_CHECK of LEAF inside a loop with an own yield",
    "t6": "T6: two-level spawn TOP -> MID -> LEAF, every combination of the three saved states",
    "t7": "T7: PT_BEGIN_FIBRE (resume point in fibre_t.priv), wait-until inside a loop",
}

prop("C08", "other",
     "Per-template step contracts (DESIGN P5 / 5.C08). The macros expand inside user functions, so there is no function of /repo to annotate and the "
     "quantifier 'all protothread bodies' cannot be expressed; instead ten template protothreads (T1-T7 and the three child templates LEAF, CALLEE, MID) "
     "are written with the real macros of include/librfn/protothreads.h and PT_BEGIN_FIBRE of fibre.h only, each paired with a hand-written explicit state "
     "machine for the same body as one sequential program cut at its blocking points. Per template: from every abstract program point (state after PT_INIT "
     "and every blocking point, combined with every point of the active child and grandchild; saved state of inactive children arbitrary), all values of the "
     "persistent variables and of the polled environment, one invocation of the real function returns the same code, performs the same effects in the same "
     "order (order-sensitive accumulator and effect count), leaves the same variables and saves the resume label of the abstract point where the state machine "
     "stopped. Every step re-establishes the correspondence, so any number of invocations is covered by induction. Resume labels (__LINE__-derived) are learned "
     "by a scripted run of the real function from PT_INIT through every blocking point, not hard-coded; the set-up checks the scripted return codes and that labels are distinct.",
     [H(n, F, "h_" + n, _MACROS[n], unwind=20, timeout=300, solvers=("cadical", "minisat"), note=_NOTES[n])
      for n in ("leaf", "t1", "t2", "t3", "t4", "callee", "t5", "mid", "t6", "t7")],
     trusted=["the hand-written explicit state machines (reference semantics of each template) are read as the meaning of 'the body as one sequential program cut at its blocking points'",
              "C preprocessor: __LINE__ has one value per macro invocation (one blocking macro per source line in the templates)"],
     assumptions=["programs quantifier: covered by the ten templates only, not by a proof over all protothread bodies",
                  "scope of the record is built into the templates: one PT_* blocking macro per line, none inside a nested switch, PT_CHILD_OK consulted before the next blocking point, "
                  "no invocation after exit/fail without PT_INIT",
                  "loops that can iterate without blocking have constant bounds (3 or 4) and are unwound completely (unwinding assertions on); loops whose every iteration blocks have symbolic bounds",
                  "PT_CALL discards the child's final code (the macro stores nothing); 'reflecting the child's result' is checked as: the child runs to its exit or failure, its effects are those of its body"])


# ------------------------------------------------------------------------------------------------ self-test mutants
def _m(*lines):
    """text of a multi-line macro definition"""
    return " \\\n".join(lines)

_WAIT = ("#define PT_WAIT()                                                              \\\n"
         "\tdo {                                                                   \\\n"
         "\t\t*missing_PT_BEGIN = __LINE__;                                  \\\n"
         "\t\treturn PT_WAITING;                                             \\\n"
         "\tcase __LINE__:                                                         \\\n"
         "\t\t;                                                              \\\n"
         "\t} while (0)")
_SPAWN_HEAD = ("#define PT_SPAWN(child, thread)                                                \\\n"
               "\tdo {                                                                   \\\n"
               "\t\tPT_INIT(child);                                                \\\n")
_CALL = ("#define PT_CALL(child, thread)                                                 \\\n"
         "\tdo {                                                                   \\\n"
         "\t\tPT_INIT(child);                                                \\\n"
         "\t\twhile ((thread) < PT_EXITED)                                   \\\n")
_WAIT_UNTIL = ("\t\t*missing_PT_BEGIN = __LINE__;                                  \\\n"
               "\t        /* FALLTHRU */                                              \\\n"
               "\tcase __LINE__:                                                         \\\n"
               "\t\tif (!(c))                                                      \\\n"
               "\t\t\treturn PT_WAITING;                                     \\\n")

# --- mutants that pass `make check` (tests/protothreadstest.c has no PT_WAIT, PT_FAIL*, PT_EXIT_ON, PT_CHILD_OK, PT_SPAWN_AND_CHECK,
#     PT_CALL, and never reaches a spawn twice)
mut("C08", "wait-not-blocking-when-reentered",
    [(PT, _WAIT, _m("#define PT_WAIT()", "\tdo {", "\t\tif (*missing_PT_BEGIN != __LINE__) {", "\t\t\t*missing_PT_BEGIN = __LINE__;",
                    "\t\t\treturn PT_WAITING;", "\t\t}", "\tcase __LINE__:", "\t\t;", "\t} while (0)"))],
    r"C08 T2")
mut("C08", "wait-returns-yielded", [(PT, _WAIT, _WAIT.replace("return PT_WAITING;", "return PT_YIELDED;"))], r"C08 (T2|T4|T5|T6|CALLEE)")
mut("C08", "spawn-no-reinit-when-reentered",
    [(PT, _SPAWN_HEAD, _SPAWN_HEAD.replace("\t\tPT_INIT(child);  ", "\t\tif (*missing_PT_BEGIN != __LINE__) PT_INIT(child);  "))],
    r"C08 (T3|MID|T6)")
mut("C08", "child-ok-inverted", [(PT, "#define PT_CHILD_OK() (pt_spawn_res != PT_FAILED)", "#define PT_CHILD_OK() (pt_spawn_res == PT_FAILED)")], r"C08 (T3|T4|T6|MID)")
mut("C08", "spawn-and-check-exits-on-child-failure", [(PT, "\t\tPT_FAIL_ON(!PT_CHILD_OK());", "\t\tPT_EXIT_ON(!PT_CHILD_OK());")], r"C08 (T4|MID|T6)")
mut("C08", "fail-returns-exited", [(PT, "\t\treturn PT_FAILED; ", "\t\treturn PT_EXITED; ")], r"C08 (LEAF|T3|T4|CALLEE|MID|T6)")
mut("C08", "exit-on-inverted", [(PT, "\t\tif (x)                                                         \\\n\t\t\tPT_EXIT();", "\t\tif (!(x))                                                      \\\n\t\t\tPT_EXIT();")], r"C08 (LEAF|T3|T4|MID|T6)")
mut("C08", "call-no-init", [(PT, _CALL, _CALL.replace("\t\tPT_INIT(child);  ", "\t\t(void)(child);  "))], r"C08 T5")
mut("C08", "call-stops-at-first-wait", [(PT, _CALL, _CALL.replace("while ((thread) < PT_EXITED)   ", "while ((thread) == PT_YIELDED)"))], r"C08 T5")
# tried and rejected because `make check` kills them (INVALID): PT_YIELD that does not block when its own label is the saved one
# (tests/fibretest.c yields in a loop) and PT_BEGIN_FIBRE switching on fibre_t.state instead of .priv (fibretest, fibredemotest);
# a PT_WAIT whose label sits before the return (never resumes) is caught as well but makes PT_CALL spin forever in the native replay.

# --- the mutants named in DESIGN.md's tier plan that tests/protothreadstest.c kills as well (its wait_thread pins the number of condition
#     evaluations, its spawn_thread re-uses one child for four spawns and checks every relayed code): machinery tests only, skip_tests=True
mut("C08", "wait-until-label-after-condition",
    [(PT, _WAIT_UNTIL, _m("\t\tif (!(c)) {", "\t\t\t*missing_PT_BEGIN = __LINE__;", "\t\t\treturn PT_WAITING;", "\t\t}", "\tcase __LINE__:", "\t\t;") + " \\\n")],
    r"C08 (LEAF|T1|T7|CALLEE).*(PT_WAIT_UNTIL|continues immediately)", skip_tests=True)
mut("C08", "spawn-without-init", [(PT, _SPAWN_HEAD, _SPAWN_HEAD.replace("\t\tPT_INIT(child);  ", "\t\t(void)(child);  "))], r"C08 (T3|T4|MID|T6)", skip_tests=True)
mut("C08", "yield-returns-waiting", [(PT, "\t\treturn PT_YIELDED; ", "\t\treturn PT_WAITING; ")], r"C08 (LEAF|T1|T3|T4|T5|CALLEE|MID|T6|T7)", skip_tests=True)


claim("C08", "other",
      "per-template step contracts: ten template protothreads built from the real PT_* macros (protothreads.h, PT_BEGIN_FIBRE of fibre.h), each checked by CBMC "
      "against a hand-written explicit state machine from every abstract program point, induction over the number of invocations",
      "NOT a proof over all protothread bodies: the `programs` quantifier is covered by ten templates only (T1 yield inside conditional/loop/conditional + wait-until in the other arm; "
      "T2 two waits in a row and waits in nested loops; T3 spawn inside a loop with PT_CHILD_OK; T4 spawn-and-check, exit-on/fail-on, exit/fail; T5 PT_CALL inside a loop; "
      "T6 two-level spawn; T7 PT_BEGIN_FIBRE; and the child templates LEAF, CALLEE, MID on their own). For each template the result is complete: for all values of the persistent "
      "variables, of the polled environment and of stale child state, and from every saved resume point, one invocation of the real function returns the same code, performs exactly the "
      "same sequence of effects, leaves the same variables and saves the resume label of the point where the sequential program cut at its blocking points stops; the correspondence is "
      "re-established by every step, so any number of invocations follows by induction from PT_INIT.",
      "Trusted: the hand-written state machines as the meaning of each template; CBMC. Resume labels are learned from a scripted run of the real function, not hard-coded. "
      "Loops that can iterate without blocking have constant bounds 3-4 (unwound completely). PT_CALL stores no result, so only 'runs the child from its beginning to completion' is checked for it. "
      "Nothing is claimed for bodies outside the record's scope (two blocking macros on one line, blocking inside a nested switch, re-invocation after exit without PT_INIT).",
      "DESIGN.md 5.C08")
