from api import H, prop, mut, claim
F = "harness/C05_ringbuf.c"
def _hs(maxlen, tiers, tag, timeout):
    d = ["-DMAXLEN=%du" % maxlen]
    b = None
    return [
      H("put_producer_" + tag, F, "h_put", ["ringbuf_put"], defs=d + ["-DROLE_PRODUCER"], shadow=True, timeout=timeout, tiers=tiers,
        solvers=("cadical", "minisat"), replayable=False, note="thread-modular query: counterexample states include an interference schedule, no native replay"),
      H("putchar_producer_" + tag, F, "h_putchar", ["ringbuf_putchar"], defs=d + ["-DROLE_PRODUCER"], shadow=True, timeout=timeout, tiers=tiers, unwind=3,
        replace_calls=["ringbuf_put:ringbuf_put_contract"], solvers=("cadical", "minisat"), replayable=False,
        note="modular: ringbuf_put substituted by its contract (enforced by put_producer); retry loop closed by the loop-cut rule; termination not claimed"),
      H("get_consumer_" + tag, F, "h_get", ["ringbuf_get"], defs=d + ["-DROLE_CONSUMER"], shadow=True, timeout=timeout, tiers=tiers,
        solvers=("cadical", "minisat"), replayable=False, note="thread-modular query: counterexample states include an interference schedule, no native replay"),
      H("empty_consumer_" + tag, F, "h_empty", ["ringbuf_empty"], defs=d + ["-DROLE_CONSUMER"], shadow=True, timeout=timeout, tiers=tiers,
        solvers=("cadical", "minisat"), replayable=False, note="thread-modular query: counterexample states include an interference schedule, no native replay"),
      H("init_" + tag, F, "h_init", ["ringbuf_init", "RINGBUF_VAR_INIT"], defs=d + ["-DROLE_CONSUMER"], shadow=True, timeout=timeout, tiers=tiers,
        solvers=("cadical", "minisat"), cover=False),
    ]
prop("C05", "proof",
     "Thread-modular rely/guarantee proof (DESIGN P6, P8) of the real ringbuf.c compiled against a shadow <stdatomic.h>: ringbuf_put is verified as the producer "
     "under the coarsest interference the consumer's guarantee permits before every atomic operation, ringbuf_get / ringbuf_empty as the consumer under the producer's; "
     "each role's own atomic steps are shown to stay within its guarantee. Buffer length is symbolic (2..2^31-1 in both tiers), indices anywhere including the wrap, "
     "byte values symbolic. Exactly-once / in-order / value delivery is proved for prophecy-chosen watched bytes (ghost state), which covers every byte. "
     "All interleavings at atomic-operation granularity of one producer and one consumer are covered without enumerating schedules (free preemption subsumes interrupt-style preemption).",
     _hs(0x7fffffff, ("quick", "thorough"), "2g", 1800),
     trusted=["atomic operations are indivisible and sequentially consistent at this level (C07 bridges to weak memory)",
              "soundness of thread-modular (rely/guarantee) reasoning with interference at atomic-operation granularity, justified by the ownership obligations"],
     assumptions=["termination of ringbuf_putchar (while(!ringbuf_put())) needs consumer progress: liveness, not claimed",
                  "buf_len <= 2^31-1 in both tiers (indices are unsigned int)"])
claim("C05", "proof",
      "thread-modular rely/guarantee contracts on the real ringbuf.c via a shadow <stdatomic.h> (CBMC), ghost watched bytes, symbolic buffer length",
      "Every interleaving of one producer and one consumer at atomic-operation granularity, every buffer length up to the tier's bound, every index position and byte value are covered by the per-role proofs; "
      "no schedule is enumerated.",
      "SC atomics; RG soundness argument on paper; termination of ringbuf_putchar not claimed; buf_len <= 2^31-1.",
      "DESIGN.md 5.C05")
mut("C05", "put-publish-before-write", [("librfn/ringbuf.c", "\trb->bufp[old_writei] = d;\n\tatomic_signal_fence(memory_order_seq_cst);\n\tatomic_store(&rb->writei, writei);", "\tatomic_store(&rb->writei, writei);\n\tatomic_signal_fence(memory_order_seq_cst);\n\trb->bufp[old_writei] = d;")], r"payload byte is in place|invariant", skip_tests=True)
mut("C05", "put-full-test-dropped", [("librfn/ringbuf.c", "\tif (writei == atomic_load(&rb->readi))\n\t\treturn false;\n", "\tif (writei == atomic_load(&rb->readi) && writei != 0)\n\t\treturn false;\n")], r"catch up with readi", skip_tests=True)
mut("C05", "get-sign-extends", [("librfn/ringbuf.c", "\td = rb->bufp[readi];", "\td = (char) rb->bufp[readi];")], r"0\.\.255|byte returned", skip_tests=True)
mut("C05", "get-wrap-gt", [("librfn/ringbuf.c", "\tif (++readi >= rb->buf_len)\n\t\treadi -= rb->buf_len;\n\n\tatomic_store(&rb->readi, readi);", "\tif (++readi > rb->buf_len)\n\t\treadi -= rb->buf_len;\n\n\tatomic_store(&rb->readi, readi);")], r"advances readi by exactly one|invariant", skip_tests=True)
mut("C05", "get-read-after-publish", [("librfn/ringbuf.c", "\td = rb->bufp[readi];\n\tatomic_signal_fence(memory_order_seq_cst);\n\n\tif (++readi >= rb->buf_len)\n\t\treadi -= rb->buf_len;\n\n\tatomic_store(&rb->readi, readi);\n\treturn d;", "\tunsigned int oldi = readi;\n\tif (++readi >= rb->buf_len)\n\t\treadi -= rb->buf_len;\n\n\tatomic_store(&rb->readi, readi);\n\tatomic_signal_fence(memory_order_seq_cst);\n\td = rb->bufp[oldi];\n\treturn d;")], r"byte returned by get")
mut("C05", "empty-stale-compare", [("librfn/ringbuf.c", "\treturn atomic_load(&rb->readi) == atomic_load(&rb->writei);", "\treturn atomic_load(&rb->writei) == atomic_load(&rb->readi) || atomic_load(&rb->writei) + 1 == atomic_load(&rb->readi);")], r"ringbuf_empty returns true only")
