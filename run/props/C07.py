from api import H, prop, mut, claim, SHARED, PROPERTIES
MQ = list(PROPERTIES["C04"]["harnesses"])
RB = list(PROPERTIES["C05"]["harnesses"])
FB = [h for h in PROPERTIES["C06"]["harnesses"] if h.entry in ("h_irq_run_atomic", "h_irq_eventq_send") or
      (h.entry in ("h_irq_drain", "h_irq_drain_step") and ("_rq0_tq0" in h.name or "_rq1_tq1" in h.name))]   # the ownership facts do not depend on the queue shapes: two partitions
FALL = [H("atomic_h_fallback_mapping", "harness/C07_atomic_fallback.c", "h_fallback", ["include/librfn/atomic.h (fallback macros)"], timeout=120, solvers=("cadical",))]
prop("C07", "other",
     "CBMC has no C11 memory model, so the property is decided through the DRF-SC theorem (a program whose atomic operations are all seq_cst and that has no data race in any sequentially consistent "
     "execution has only sequentially consistent executions). Its two premises are contract obligations on the real code, discharged in this run: (1) memory-order table - every shadow atomic operation "
     "receives the memory_order the code wrote (seq_cst for the non-_explicit forms) and the harness asserts, by the ROLE of the access in the ghost ownership state (not by line number), that an operation which "
     "publishes ownership (store of writei / readi, fetch_or in send, fetch_add in release, the compare-exchange on sendp) is at least release and one which acquires it (load of the other side's index, "
     "fetch_sub in claim, the receiver's fetch_and / load of the flags) is at least acquire; include/librfn/atomic.h's fallback macros are shown to map to __ATOMIC_SEQ_CST; (2) ownership discipline in SC "
     "executions - from the C04 / C05 / C06 harnesses: at every atomic boundary everything the verified thread does not own is havocked by the environment (payload of a slot is overwritten the moment it is "
     "released), so a plain access to not-owned memory cannot support any proved postcondition, and ownership changes hands only at the atomic operations of (1). "
     "If a change weakens an order but keeps every publish release and every observe acquire the check still passes: the ownership-transfer argument (RSL-style) then carries the first sentence of C07, "
     "and the evidence says that this extension is trusted rather than DRF-SC.",
     MQ + RB + FB + FALL,
     trusted=["the DRF-SC theorem of the C11 memory model", "gcc/clang's mapping of seq_cst / release / acquire atomics to the target", "soundness of ownership transfer through release/acquire (RSL-style) when an order is weakened but stays within the table",
              "the long randomised ThreadSanitizer runs named in the record's quantifier are a different technique and are not performed"],
     assumptions=["premise (2) is established for sequentially consistent interleavings at atomic-operation granularity (the C04-C06 proofs)", "bounds of the C06 interruption harnesses (pool, arrivals) apply to the fibre wake-up / event delivery part"])
claim("C07", "other",
      "reduction to the DRF-SC theorem: memory-order preconditions on every atomic operation by ownership role (shadow <stdatomic.h>, CBMC) + ownership frames of the C04/C05/C06 thread-modular contracts + fallback-atomics mapping of atomic.h",
      "NOT an exploration of C11 executions: both premises of DRF-SC are machine-checked on the real code (every publishing atomic is at least release, every observing atomic at least acquire - on the current tree all are seq_cst; no plain access to memory the thread does not own in any SC interleaving), the theorem itself is trusted. A violation of the order table cannot be replayed on x86 and is reported with no-failing-input-found.",
      "Trusted: DRF-SC, compiler mapping of atomics, RSL-style ownership transfer for weakened-but-sufficient orders. No ThreadSanitizer soak runs. Bounds of C06's interruption harnesses.",
      "DESIGN.md 5.C07")
mut("C07", "ringbuf-writei-store-relaxed", [("librfn/ringbuf.c", "\tatomic_store(&rb->writei, writei);", "\tatomic_store_explicit(&rb->writei, writei, memory_order_relaxed);")], r"C07", skip_tests=True)
mut("C07", "messageq-send-relaxed", [("librfn/messageq.c", "\tatomic_fetch_or(&mq->full_flags, (1 << sendp));", "\tatomic_fetch_or_explicit(&mq->full_flags, (1 << sendp), memory_order_relaxed);")], r"C07", skip_tests=True)
mut("C07", "ringbuf-payload-after-publish", [("librfn/ringbuf.c", "\trb->bufp[old_writei] = d;\n\tatomic_signal_fence(memory_order_seq_cst);\n\tatomic_store(&rb->writei, writei);", "\tatomic_store(&rb->writei, writei);\n\tatomic_signal_fence(memory_order_seq_cst);\n\trb->bufp[old_writei] = d;")], r"C05|C07", skip_tests=True)
mut("C07", "fallback-store-release", [("include/librfn/atomic.h", "\t__atomic_store_n(object, desired, __ATOMIC_SEQ_CST)", "\t__atomic_store_n(object, desired, __ATOMIC_RELEASE)")], r"C07", skip_tests=True)
mut("C07", "ringbuf-get-acquire-release-ok-NEGATIVE", [("librfn/ringbuf.c", "\tatomic_store(&rb->readi, readi);", "\tatomic_store_explicit(&rb->readi, readi, memory_order_release);")], r"NEVER", skip_tests=True, expect_pass=True)
