from api import H, prop, mut, claim
F = "harness/C04_messageq_conc.c"
NOTE = "thread-modular query: counterexample states include an interference schedule, no native replay"
def _h(name, entry, fn, role, timeout=1200, **kw):
    return H(name, F, entry, fn, defs=["-DROLE_" + role], shadow=True, unwind=34, timeout=timeout,
             solvers=("cadical", "minisat"), replayable=False, note=NOTE, **kw)
prop("C04", "proof",
     "Thread-modular rely/guarantee proof (DESIGN P6, P7, P8) of the real messageq.c compiled against a shadow <stdatomic.h>. messageq_claim and messageq_send are verified as one sender "
     "under the coarsest interference of any number of other senders and the receiver before every atomic operation; messageq_receive / release / empty as the receiver under any number of "
     "senders. Ghost counters (held, claimed, claims in flight, pending undos) carry the statement's accounting: permission is classified by the TRUE number of free buffers at the decrement, "
     "the code must branch accordingly, the slot taken at the successful compare-exchange must be free, the retry loop is closed by the loop-cut rule, receive takes exactly the oldest "
     "claimed message when it is marked sent. Geometry is symbolic (depth 1..32, message size 1..65535, slack). Every interleaving at atomic-operation granularity, for every number of senders "
     "(at most 100 simultaneously inside a claim), is covered without enumerating schedules; run-to-completion interrupt handlers are a special case of free preemption.",
     [_h("claim_sender", "h_claim", ["messageq_claim"], "SENDER"),
      _h("send_sender", "h_send", ["messageq_send"], "SENDER"),
      _h("receive_receiver", "h_receive", ["messageq_receive"], "RECEIVER"),
      _h("release_receiver", "h_release", ["messageq_release"], "RECEIVER"),
      _h("empty_receiver", "h_empty", ["messageq_empty"], "RECEIVER"),
      _h("quiescent", "h_quiescent", ["(invariant lemma)"], "RECEIVER", cover=False)],
     trusted=["atomic operations are indivisible and sequentially consistent at this level (C07 bridges to weak memory)",
              "soundness of thread-modular (rely/guarantee) reasoning and of the loop-cut rule for the compare-exchange retry loop (partial correctness; lock-freedom is not claimed)"],
     assumptions=["at most 100 senders are simultaneously between the two atomic steps of messageq_claim (the 8-bit free counter needs fewer than 128)",
                  "FIFO / exactly-once follow from the step contracts by induction on the ring view: claim appends at sendp, receive removes at receivep, both advance by one slot"])
claim("C04", "proof",
      "thread-modular rely/guarantee contracts on the real messageq.c via a shadow <stdatomic.h> (CBMC), counting ghost state, loop-cut rule for the CAS retry loop, symbolic geometry",
      "All interleavings of any number of senders with one receiver at atomic-operation granularity, for every depth and message size, are covered by per-role proofs from an arbitrary invariant state; no schedule is enumerated.",
      "SC atomics; RG soundness and loop-cut rule argued on paper; at most 100 simultaneous claimers; no native replay of interleavings (VIOLATION lines carry no-failing-input-found).",
      "DESIGN.md 5.C04")
mut("C04", "claim-undo-dropped", [("librfn/messageq.c", "\tif (num_free <= 0) {\n\t\tatomic_fetch_add(&mq->num_free, 1);\n\t\treturn NULL;\n\t}", "\tif (num_free <= 0) {\n\t\tatomic_store(&mq->num_free, 0);\n\t\treturn NULL;\n\t}")], r"C04")
mut("C04", "claim-cas-to-load-store", [("librfn/messageq.c", "\t} while(!atomic_compare_exchange_weak(&mq->sendp, &sendp, newsendp));", "\t} while(0);\n\tatomic_store(&mq->sendp, newsendp);")], r"C04")
mut("C04", "send-plain-or", [("librfn/messageq.c", "\tatomic_fetch_or(&mq->full_flags, (1 << sendp));", "\tatomic_store(&mq->full_flags, atomic_load(&mq->full_flags) | (1 << sendp));")], r"C04")
mut("C04", "receive-advances-when-clear", [("librfn/messageq.c", "\tif (0 == (full_flags & (1 << receivep)))\n\t\treturn NULL;\n", "\tif (0 == full_flags)\n\t\treturn NULL;\n")], r"C04")
mut("C04", "claim-unsigned-counter-F2-reverted", [("include/librfn/messageq.h", "atomic_schar num_free;", "atomic_uchar num_free;")], r"only when one was really free|handed out is free")
