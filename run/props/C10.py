from api import H, prop, mut, claim
F = "harness/C10_messageq_seq.c"
SOLV = ("cadical", "minisat")
prop("C10", "proof",
     "Sequential contracts on messageq_init / claim / send / receive / release and messageq_empty (DESIGN 5.C10) with symbolic geometry "
     "(depth 1..32, message size 1..65535, slack 0..msg_len-1) against a ghost view (held, claimed) of the ring. Each operation starts from an arbitrary "
     "state satisfying the invariant - any ring position, any subset of the claimed messages sent - and re-establishes it, so operation histories of any "
     "length are covered by induction from messageq_init, which is shown field-wise equal to MESSAGEQ_VAR_INIT. Contracts are enforced by goto-instrument --dfcc "
     "(assigns clauses exclude the caller's storage; one watched byte, slack included, is also compared).",
     [H("claim", F, "h_claim", ["messageq_claim"], enforce=["messageq_claim"], unwind=3, timeout=900, solvers=SOLV),
      H("send", F, "h_send", ["messageq_send"], enforce=["messageq_send"], unwind=3, timeout=900, solvers=SOLV),
      H("receive", F, "h_receive", ["messageq_receive", "messageq_empty"], enforce=["messageq_receive"], unwind=3, timeout=900, solvers=SOLV),
      H("release", F, "h_release", ["messageq_release"], enforce=["messageq_release"], unwind=3, timeout=900, solvers=SOLV),
      H("init", F, "h_init", ["messageq_init", "MESSAGEQ_VAR_INIT"], enforce=["messageq_init"], unwind=3, timeout=900, solvers=("cadical", "z3", "cvc5"))],
     trusted=["CBMC's sequential model of <stdatomic.h>; the weak compare-exchange succeeds on its first attempt in that model (retries are covered under C04)"],
     assumptions=["ghost counters g_h / g_c are maintained by the harness (+1 claimed on a successful claim, claimed->held on receive, -1 held on release)",
                  "scope of the record: releases follow receives, a message is sent once after being claimed"])
claim("C10", "proof",
      "CBMC function contracts (goto-instrument --dfcc, assigns-clause frame) on the real messageq.c with symbolic geometry and an abstract ring view; induction over operations",
      "Every depth 1..32, every message size, every slack and every invariant-satisfying state is covered symbolically per operation; the invariant is inductive, so every sequential history the API permits is covered.",
      "Sequential semantics of the atomics (CBMC model). 1 << 31 (shift into the sign bit) is an accepted check class.",
      "DESIGN.md 5.C10")
mut("C10", "claim-wrap-queue-len", [("librfn/messageq.c", "newsendp = (sendp >= (mq->queue_len-1) ? 0 : sendp+1);", "newsendp = (sendp >= mq->queue_len ? 0 : sendp+1);")], r"claim", skip_tests=True)
mut("C10", "receive-wrap-queue-len", [("librfn/messageq.c", "(receivep >= (unsigned int)(mq->queue_len - 1) ? 0 : receivep + 1);", "(receivep >= (unsigned int)(mq->queue_len) ? 0 : receivep + 1);")], r"receive", skip_tests=True)
mut("C10", "send-flag-mask-15", [("librfn/messageq.c", "atomic_fetch_or(&mq->full_flags, (1 << sendp));", "atomic_fetch_or(&mq->full_flags, (1 << (sendp & 15)));")], r"send")
mut("C10", "empty-tests-sendp", [("include/librfn/messageq.h", "(1 << mq->receivep));", "(1 << (mq->receivep ? mq->receivep : mq->sendp)));")], r"messageq_empty")
mut("C10", "init-rounds-up", [("librfn/messageq.c", "\tmq->queue_len = base_len / msg_len;", "\tmq->queue_len = (base_len + msg_len - 1) / msg_len;")], r"init|initialiser")
mut("C10", "receive-advances-when-empty", [("librfn/messageq.c", "\tif (0 == (full_flags & (1 << receivep)))\n\t\treturn NULL;\n", "\tif (0 == (full_flags & (1 << receivep)) && mq->queue_len > 1)\n\t\treturn NULL;\n")], r"receive")
mut("C10", "claim-wrap-masked-32", [("librfn/messageq.c", "newsendp = (sendp >= (mq->queue_len-1) ? 0 : sendp+1);", "newsendp = ((((sendp + 1) & 31) >= mq->queue_len) ? 0 : sendp+1);")], r"claim")
