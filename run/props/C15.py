"""C15 - console: line editor, tokenizer, command table, console_eval (DESIGN 5.C15)."""
from api import H, prop, mut, claim

F = "harness/C15_console.c"
D = ["-D__NO_CTYPE"]
STUBS_RUN = ["do_tokenize:do_tokenize_contract", "find_command:find_command_contract", "do_prompt:do_prompt_contract"]
STUBS_EVAL = ["do_tokenize:do_tokenize_contract", "find_command:find_command_contract"]
NAMES = "command names of 1..4 characters (any bytes); table size is the real constant 32, every fill 0..31"
EQ_LEN, EQ_LEN_T, TEXT_LEN = 8, 11, 6


RUNLOOP = ["console_run.3:3"]   # the while(1) of console_run: one iteration per unread character (the step harnesses hold at most one), checked by the unwinding assertion


def _both(name, entry, funcs, defs=(), lp_unwind=162, **kw):
    """the same query under LP64 (default) and ILP32 (goto-cc --i386-linux: the library's embedded targets).  The reachability covers are
    the same source lines in both, they are run once (LP64)."""
    note = kw.pop("note", "")
    return [H(name, F, entry, funcs, defs=D + list(defs), note=note, unwind=lp_unwind, **kw),
            H(name + "_ilp32", F, entry, funcs, defs=D + list(defs) + ["-DVERIF_ILP32"], i386=True, replayable=False, cover=False, unwind=170,
              note=(note + "; " if note else "") + "ILP32 data model (scratch union is 80 bytes, sizeof(console_t) 168); libc functions modelled in the harness; native replay is LP64 only", **kw)]


_CASES = [("dispatch", 0), ("backspace", 1), ("ctrlc", 2), ("store", 3)]
Q, T = ("quick",), ("thorough",)
TOK_WIN = 24


def _eval_step(n, tiers):
    return _both("eval_step_len%d" % n, "h_eval_step", ["console_eval"], defs=["-DEVS_LEN=%d" % n], replace_calls=STUBS_RUN,
                 unwindset=RUNLOOP + ["console_eval.1:%d" % (n + 3)], timeout=900, cbmc_flags=["--object-bits", "12"], tiers=tiers,
                 bounded="injected text of at most %d characters (any bytes), ring holding 0..15 unread bytes at any position; first invocation and one resumption "
                         "after an arbitrary partial drain of the ring" % n)


def _equiv(n, tiers):
    return [H("tokenize_equiv_len%d" % n, F, "h_tok_equiv", ["do_tokenize"], defs=D + ["-DEQ_LEN=%d" % n], unwind=162,
              unwindset=["do_tokenize.0:%d" % (n + 2), "strlen.0:%d" % (n + 2)], solvers=("cadical", "minisat"), timeout=1800, tiers=tiers,
              bounded="lines of at most %d characters over the alphabet {a, b, space, tab, ', \", NUL}, well-formed quoting" % n)]


HS = (
    _both("run_init", "h_run_init", ["console_init", "console_run", "do_prompt", "console_silent"], replace_calls=STUBS_EVAL, unwindset=RUNLOOP, timeout=300) +
    sum([_both("run_wait_%s%s" % (cn, "_sentinel" if k else ""), "h_run_wait", ["console_run", "console_getch"], defs=["-DRUN_CASE=%d" % c, "-DRUN_K=%d" % k],
               replace_calls=STUBS_RUN, unwindset=RUNLOOP, timeout=600,
               note="per-character step, case '%s'%s; do_tokenize / find_command / do_prompt substituted by their contract stubs, the command by the command contract"
                    % (cn, " with the lookup selecting the sentinel" if k else ""))
         for cn, c in _CASES for k in ((0, 1) if c == 0 else (0,))], []) +
    _both("run_spawn", "h_run_spawn", ["console_run"], replace_calls=STUBS_RUN, unwindset=RUNLOOP, timeout=600,
          note="resumption of a blocked command; callees substituted by their contract stubs") +
    _both("process", "h_process", ["console_process"], replace_calls=["console_run:console_run_contract"], timeout=300,
          bounded="the console protothread yields at most 3 times per character (the loop of console_process has no state of its own)",
          note="console_process = ring put + console_run until it no longer yields; console_run substituted by a stub that only answers and counts (its step contract is run_wait / run_spawn)") +
    _both("do_prompt", "h_prompt", ["do_prompt"], timeout=300) +
    # tokenizer, structural guarantees: complete in the thorough tier (several minutes); the quick tier runs two windows of the same harness
    _both("tokenize", "h_tokenize", ["do_tokenize"], unwindset=["do_tokenize.0:81", "strlen.0:81"], solvers=("minisat", "cadical"), timeout=3000, tiers=T,
          cbmc_flags=["--slice-formula"],
          note="every content of the 80-byte line buffer: the loop bound 80 is a constant, unwound completely") +
    _both("tokenize_head%d" % TOK_WIN, "h_tokenize", ["do_tokenize"], defs=["-DTOK_HEAD=%d" % TOK_WIN], unwindset=["do_tokenize.0:%d" % (TOK_WIN + 2), "strlen.0:%d" % (TOK_WIN + 2)],
          timeout=900, tiers=Q, bounded="quick-tier stand-in for `tokenize`: lines that end within the first %d bytes of the buffer (any bytes)" % TOK_WIN) +
    _both("tokenize_tail%d" % TOK_WIN, "h_tokenize", ["do_tokenize"], defs=["-DTOK_TAIL=%d" % TOK_WIN], unwindset=["do_tokenize.0:81", "strlen.0:81"],
          timeout=900, tiers=Q, bounded="quick-tier stand-in for `tokenize`: full-length lines whose last %d bytes are arbitrary (after plain characters)" % TOK_WIN) +
    _equiv(EQ_LEN, Q) + _equiv(EQ_LEN_T, T) +
    [H("table_init", F, "h_table_init", ["cmd_table (static initialiser)"], defs=D, unwind=34, timeout=120, cover=False)] +
    _both("find_command", "h_find", ["find_command"], solvers=("cadical", "minisat"), timeout=900, bounded=NAMES) +
    _both("register", "h_register", ["console_register"], unwindset=["strcmp.0:6"], solvers=("cadical", "minisat"), timeout=900, bounded=NAMES) +
    _both("builtin", "h_builtin", ["console_echo", "console_unknown"], timeout=300) +
    _both("putchar", "h_putchar", ["console_putchar"], timeout=300) +
    _eval_step(4, Q) + _eval_step(6, T) +
    [H("eval_seq", F, "h_eval_seq", ["console_eval", "console_run", "console_init", "do_prompt"], defs=D + ["-DTEXT_LEN=%d" % TEXT_LEN],
       replace_calls=["console_run:console_run_steps"], unwind=162, unwindset=["console_eval.1:%d" % (TEXT_LEN + 2)], timeout=900, cbmc_flags=["--object-bits", "12"],
       bounded="injected text of at most %d characters over {x, space, newline}; ring of the real size (16) holding 12 unread typed characters when the injection starts (room for 3); commands exit at once" % TEXT_LEN,
       note="sequence level: console_init, console_eval resumed until it exits, the harness runs the console protothread in between; under CBMC the protothread "
            "is substituted by its per-character step contract executed for every unread character (natively the real console_run runs)")]
)


def _mc(tier, recs):
    names = {h.name for h, r in recs}
    # bounded universes that were explored completely (symbolically) by the discharged bounded harnesses
    L = EQ_LEN_T if tier == "thorough" else EQ_LEN
    eq = sum(6 ** k for k in range(L + 1)) if ("tokenize_equiv_len%d" % L) in names else 0     # lines: k non-NUL characters over 6 symbols, then NULs
    ev = sum(3 ** k for k in range(TEXT_LEN + 1)) if "eval_seq" in names else 0
    return {"states": eq + ev,
            "transitions": eq + ev,
            "traces_validated_against_impl": eq + ev,
            "rule_model_checking": "states = members of the bounded input universes of the bounded harnesses that were discharged in this run, each covered symbolically by one query: "
                                   "tokenizer lines (up to %d (quick) / %d (thorough) characters over 6 symbols + NUL padding; lines with ill-formed quoting are inside the count but only checked for memory safety), "
                                   "injected texts (up to %d characters over 3 symbols); the table harnesses (names of up to 4 arbitrary bytes, every fill 0..31) and the unbounded step contracts are not counted. "
                                   "transitions = one run of the real code per member; there is no separate model: the real console.c is what is executed, hence traces_validated_against_impl = states"
                                   % (EQ_LEN, EQ_LEN_T, TEXT_LEN)}


prop("C15", "model_checking",
     "Modular step contracts on the real console.c plus bounded sequence-level checks (DESIGN 5.C15). console_run is verified per character from every state satisfying the console invariant "
     "(cursor inside the 80-byte line buffer, buf[79] == 0, bytes after the cursor zero, ring indices in range) at its two resume points (learnt by running it, not hard-coded), with do_tokenize / "
     "find_command / do_prompt substituted by contract stubs and the command by the most general command (any return code, may scribble on the scratch union); every step re-establishes the invariant, "
     "so streams of any length follow by induction from console_init (base case run_init). Each callee is verified against the same contract text (contracts/console_contract.h): do_tokenize on every "
     "content of the 80-byte buffer (complete), find_command / console_register on tables of every fill with names of up to 4 characters, do_prompt, the built-in handlers, console_putchar. "
     "Functional equivalence of the tokenizer with a reference written from the statement, and delivery by console_eval at sequence level are bounded checks. "
     "Memory-safety harnesses run under LP64 and ILP32.",
     HS, mc=_mc,
     trusted=["external, stubbed: fprintf / fflush (recorded by message), console_hwinit, fibre_init / fibre_run / fibre_run_atomic (C01-C03)",
              "CBMC's models of strlen / strcmp / memset / memcmp and of the function form of isspace (-D__NO_CTYPE)",
              "paper arguments: induction over the character stream from the step contracts; one loop iteration of console_run per unread character (the step harness holds exactly one)"],
     assumptions=["registered command names are non-empty strings; commands keep to the command contract (return one of the four codes, write only the scratch union and c->pt)",
                  "console_help (a protothread with function-static state) is not verified against the command contract",
                  "tokenizer equivalence is restricted to lines whose meaning the statement fixes: quotes open an argument, are closed, and the closing quote is followed by white space or the end of the line; "
                  "a quoted command name, an empty quoted argument, leading white space, a quoted argument that begins with the other quote character and the text of a fourth argument that is followed by more "
                  "text are outside the checked domain (the real tokenizer treats them in its own way)"])

claim("C15", "model_checking",
      "CBMC step contracts on the real console.c (callees substituted by contract stubs that are enforced in their own harnesses), complete unwinding of the constant-bound loops, bounded sequence-level harnesses",
      "Per-character step of console_run from every invariant state and every next character, do_tokenize on every 80-byte buffer content (thorough tier; the quick tier runs two 24-byte-window stand-ins, labelled bounded), table operations on every fill: complete inside the stated name bound; "
      "streams of any length by induction. Tokenizer equivalence (lines <= %d) and console_eval delivery (texts <= %d) are bounded." % (EQ_LEN, TEXT_LEN),
      "I/O and fibre scheduling stubbed; command bodies by contract; LP64 and ILP32 data models for the memory-safety harnesses; native replay is LP64 only.",
      "DESIGN.md 5.C15")


# ------------------------------------------------------------------------------------------------ self-test mutants
# No unit test touches the console (src/consoledemo.c is interactive), so every one of these passes `make check`.
CC = "librfn/console.c"
mut("C15", "full-buffer-test-one-late", [(CC, "c->bufp >= &c->scratch.buf[79]", "c->bufp >= &c->scratch.buf[80]")],
    r"full buffer dispatches|buf\[79\] == 0", only=r"^run_wait_(dispatch|store)$")
mut("C15", "argc-limit-gt", [(CC, "if (++c->argc >= (int) lengthof(c->argv))", "if (++c->argc > (int) lengthof(c->argv))")],
    r"1 <= argc <= 4|array_bounds|argv\[i\] points into", only=r"^tokenize_(head24|equiv_len8)$")
mut("C15", "backspace-no-lower-bound", [(CC, "if (c->bufp > c->scratch.buf) {", "if (c->bufp >= c->scratch.buf) {")],
    r"never before the start", only=r"^run_wait_backspace$")
mut("C15", "register-shifts-from-the-front", [(CC, "\tfor (j = lengthof(cmd_table) - 1; j > i; j--)\n\t\tcmd_table[j] = cmd_table[j-1];",
                                                 "\tfor (j = i + 1; j < lengthof(cmd_table); j++)\n\t\tcmd_table[j] = cmd_table[j-1];")],
    r"console_register inserts", only=r"^register$")
mut("C15", "find-command-prefix-match", [(CC, "if (0 == strcmp(c->argv[0], (*cmd)->name))", "if (0 == strncmp(c->argv[0], (*cmd)->name, strlen((*cmd)->name)))")],
    r"find_command selects|found by its exact name", only=r"^find_command$")
mut("C15", "ctrl-c-keeps-the-line", [(CC, "\t\t\tfprintf(c->out, \"\\n\");\n\t\t\tdo_prompt(c);", "\t\t\tfprintf(c->out, \"\\n\");\n\t\t\tc->bufp = c->scratch.buf;")],
    r"Ctrl-C discards", only=r"^run_wait_ctrlc$")
mut("C15", "register-full-test-one-early", [(CC, "if (cmd_table[lengthof(cmd_table)-1])", "if (cmd_table[lengthof(cmd_table)-2])")],
    r"registration succeeds while the table has a free slot", only=r"^register$")
mut("C15", "tokenizer-splits-inside-quotes", [(CC, "if (isspace((int) c->scratch.buf[i]) && !quote) {", "if (isspace((int) c->scratch.buf[i])) {")],
    r"split on unquoted white space", only=r"^tokenize_equiv_len8$")
