from api import H, prop, mut, claim
F = "harness/C09_list.c"
OPS = [("insert", ["list_insert"]), ("push", ["list_push"]), ("insert_sorted", ["list_insert_sorted", "list_iterate", "list_iterator_next", "list_iterator_insert"]),
       ("extract", ["list_extract"]), ("iterate_next", ["list_iterate", "list_iterator_next", "list_peek", "list_empty"]),
       ("iterator_insert", ["list_iterator_insert"]), ("iterator_remove", ["list_iterator_remove"]),
       ("contains", ["list_contains"]), ("remove", ["list_remove", "list_contains", "list_iterator_remove"])]
def _hs(n, tiers, timeout):
    return [H("%s_pool%d" % (op, n), F, "h_" + op, fns, defs=["-DNPOOL=%d" % n], unwind=n + 3, timeout=timeout, tiers=tiers,
              solvers=("cadical", "minisat"), bounded="pool of %d nodes, two lists: every pair of duplicate-free disjoint sequences over the pool, every stale tail" % n)
            for op, fns in OPS]
def _mc(tier, recs):
    import math, re
    pools = {int(re.search(r"_pool(\d+)$", h.name).group(1)) for h, r in recs}
    def states(n):   # ordered selections of m distinct nodes out of n, split into (first list, second list) at any of m+1 points
        return sum((m + 1) * math.factorial(n) // math.factorial(n - m) for m in range(n + 1))
    st = sum(states(n) for n in pools)
    return {"states": st, "transitions": st * len(recs) // max(len(pools), 1), "traces_validated_against_impl": st * len(recs) // max(len(pools), 1),
            "rule_model_checking": "states = abstract well-formed states covered symbolically by each discharged query: pairs of disjoint duplicate-free sequences over the node pool "
                                   "(counted combinatorially by this function for the pool sizes of the harnesses that were discharged; stale tails, iterator positions and keys multiply this further and are not counted); "
                                   "transitions = states x operations discharged (each operation's real code is verified from every such state; there is no separate model, hence traces_validated_against_impl = transitions)"}

prop("C09", "model_checking",
     "Per-operation step contracts of the real list.c against an abstract sequence (DESIGN P4/P5): from an arbitrary well-formed state - two disjoint duplicate-free lists over a pool of "
     "nodes, arbitrary stale tail on an empty list, iterator anywhere including past the end - one real operation is applied and the whole resulting sequence, every return value, the "
     "iterator position, the frame (other list, nodes outside) and well-formedness of the result are checked. Operation sequences of any length follow by induction; the node pool "
     "(5 quick / 6 thorough) is the bound, inside which every shape and aliasing pattern is covered symbolically.",
     _hs(5, ("quick",), 900) + _hs(6, ("thorough",), 3600), mc=_mc,
     assumptions=["scope of the record: a node is never inserted while it is already a member of a list",
                  "list_insert_sorted: comparator is a total preorder on the pool (integer keys), list sorted on entry"])
claim("C09", "model_checking",
      "CBMC harness-enforced step contracts (plain-C spec functions) on the real list.c over a bounded symbolic universe of list shapes; induction over operations",
      "Every operation from every well-formed state of two lists over a pool of 5 (quick) / 6 (thorough) nodes, with the complete post-state compared to the abstract sequence; unbounded in the number of operations (induction), bounded in the number of nodes.",
      "CBMC has no inductive heap predicates: the node pool is a bound and the result is labelled bounded. Contracts are plain-C spec functions enforced by each function's harness (DESIGN 2.2), not DFCC clauses.",
      "DESIGN.md 5.C09")
mut("C09", "iterator-remove-tail-not-moved", [("librfn/list.c", "\tif (iter->list->tail == curr)\n\t\titer->list->tail = prev;\n", "")], r"C09", skip_tests=True)
mut("C09", "iterator-insert-tail-not-set", [("librfn/list.c", "\tif (!curr)\n\t\titer->list->tail = node;\n", "")], r"C09", skip_tests=True)
mut("C09", "extract-next-not-cleared", [("librfn/list.c", "\tlist->head = node->next;\n\tnode->next = NULL;\n", "\tlist->head = node->next;\n")], r"C09", skip_tests=True)
mut("C09", "push-tail-not-set-on-empty", [("librfn/list.c", "\t} else {\n\t\tlist->tail = node;\n\t}\n\tlist->head = node;", "\t}\n\tlist->head = node;")], r"C09")
mut("C09", "insert-sorted-gt", [("librfn/list.c", "\t     nodecmp(node, curr) >= 0;\n", "\t     nodecmp(node, curr) > 0;\n")], r"C09", skip_tests=True)
mut("C09", "remove-leaves-link", [("librfn/list.c", "\t*(iter->prevnext) = curr->next;\n\tcurr->next = NULL;\n", "\t*(iter->prevnext) = curr->next;\n")], r"C09", skip_tests=True)
