from api import H, prop, mut, claim
F = "harness/C11_bintree.c"
_B = "every binary tree shape with at most %d nodes (symbolic shape: node count and left-subtree sizes are inputs)"
_BL = "left- and right-leaning list spines of at most %d list nodes; elements with arbitrary (possibly list-flagged) children"
ITERS = [("iter_in_order", ["bintree_iterate_in_order", "in_order_iterator", "bintree_next", "bintree_traverse_in_order"]),
         ("iter_pre_order", ["bintree_iterate_pre_order", "pre_order_iterator", "bintree_next", "bintree_traverse_pre_order"]),
         ("iter_post_order", ["bintree_iterate_post_order", "post_order_iterator", "in_order_iterator", "bintree_next", "bintree_traverse_post_order"])]
FREES = [("free", ["bintree_free", "bintree_iterate_post_order", "post_order_iterator"]), ("free_left", ["bintree_free_left", "bintree_free"]),
         ("free_right", ["bintree_free_right", "bintree_free"])]
LISTF = ["bintree_iterate_list", "list_left_iterator", "list_right_iterator", "bintree_next", "bintree_traverse_list"]

def _sym(n, tiers, timeout):
    return [H("%s_n%d" % (nm, n), F, "h_" + nm, fns, defs=["-DN=%d" % n], unwind=2 * n + 6, timeout=timeout, tiers=tiers,
              solvers=("cadical", "minisat"), bounded=_B % n) for nm, fns in ITERS + FREES]

def _parts(n, tiers, timeout):
    """thorough: one query per (node count, size of the root's left subtree): the union is every shape with <= n nodes"""
    hs = []
    for nm, fns in ITERS + FREES:
        for cnt in range(0, n + 1):
            for l0 in range(0, max(cnt, 1)):
                hs.append(H("%s_n%d_l%d_of%d" % (nm, cnt, l0, n), F, "h_" + nm, fns,
                            defs=["-DN=%d" % n, "-DFIXN=%d" % cnt, "-DFIXL0=%d" % l0], unwind=2 * n + 6, timeout=timeout, tiers=tiers,
                            solvers=("cadical", "minisat"), cover=False, bounded=_B % n,
                            note="shapes with exactly %d nodes whose root has a left subtree of %d nodes" % (cnt, l0)))
    return hs

prop("C11", "model_checking",
     "Harness-enforced contracts on the real bintree.c iterators and bintree_free over a bounded symbolic universe of tree shapes (DESIGN P4): the node count n and the size of every "
     "node's left subtree are inputs, so every binary tree shape with at most N nodes (empty, single, spines, zig-zag included) is covered in one symbolic query. Postconditions from the "
     "statement: the iterator returns each node once, in the order of the file's own recursive traversal and of an independent recursive reference over the abstract shape; after "
     "completion every left/right link has its original value; the list iterator equals the recursive list traversal on left- and right-leaning spines; bintree_free[_left/_right] hand "
     "every node of the subtree to the deallocator once, children first, and clear the parent's link. The deallocator stub really free()s each node (own malloc object), so CBMC's "
     "dereference checks are the 'never reads a node after deallocation' obligation.",
     _sym(4, ("quick",), 900) +
     [H("iter_list_k3", F, "h_iter_list", LISTF, defs=["-DN=4", "-DK=3"], unwind=14, timeout=900, tiers=("quick",), solvers=("cadical", "minisat"), bounded=_BL % 3),
      H("iter_list_k5", F, "h_iter_list", LISTF, defs=["-DN=4", "-DK=5"], unwind=18, timeout=3000, tiers=("thorough",), solvers=("cadical", "minisat"), bounded=_BL % 5)] +
     _parts(6, ("thorough",), 3000),
     trusted=["CBMC models of malloc/free (deallocated-object tracking)"],
     assumptions=["nodes are at least 2-byte aligned (pool nodes are naturally aligned): the post-order iterator keeps a mark in bit 0 of the left pointer",
                  "bintree.c is not part of the library build; the harness includes it directly"])
claim("C11", "model_checking",
      "CBMC harness-enforced contracts on the real bintree.c iterators / bintree_free over a bounded symbolic universe of tree shapes, recursive traversals and an independent reference as oracle",
      "Every tree shape with at most 4 (quick) / 6 (thorough) nodes is covered symbolically: order, exactly-once, link restoration, deallocation order and use-after-free freedom are checked on each. Larger shapes are not covered.",
      "CBMC has no inductive heap predicates: the node count is a bound and the result is labelled bounded (never counted as proved). Random larger shapes of the record's quantifier are not sampled (different technique).",
      "DESIGN.md 5.C11")
mut("C11", "in-order-thread-left-in-place", [("librfn/bintree.c", "\t\t\tprev->right = NULL;\n\t\t\titer->curr = curr->right;\n\t\t\treturn curr;", "\t\t\titer->curr = curr->right;\n\t\t\treturn curr;")], r"C11|dereference", skip_tests=True)
mut("C11", "post-order-tag-not-cleared", [("librfn/bintree.c", "\t\t/* unmark this node */\n\t\ttmp->left =\n\t\t    (bintree_node_t *)(((uintptr_t)tmp->left) & (uintptr_t)-2);\n", "")], r"C11|dereference", skip_tests=True)
mut("C11", "free-patches-parent-before-dealloc-read", [("librfn/bintree.c", "\t\tdealloc(n);\n\n\t\tif (iter.parent) {", "\t\tdealloc(n);\n\t\tif (n->left) n->left = NULL;\n\n\t\tif (iter.parent) {")], r"C11|dereference|deallocated", skip_tests=True)
