from api import H, prop, mut, claim
F = "harness/C11_bintree.c"
REC = ["ref_in_order:%d", "ref_pre_order:%d", "ref_post_order:%d", "bintree_traverse_in_order_depth:%d",
       "bintree_traverse_pre_order_depth:%d", "bintree_traverse_post_order_depth:%d", "bintree_traverse_list:%d"]
IN_F = ["bintree_iterate_in_order", "in_order_iterator", "bintree_next", "bintree_traverse_in_order"]
PRE_F = ["bintree_iterate_pre_order", "pre_order_iterator", "bintree_next", "bintree_traverse_pre_order"]
POST_F = ["bintree_iterate_post_order", "post_order_iterator", "in_order_iterator", "bintree_next", "bintree_traverse_post_order"]
FREE_F = {"free": ["bintree_free", "bintree_iterate_post_order", "post_order_iterator", "bintree_next"],
          "free_left": ["bintree_free_left", "bintree_free"], "free_right": ["bintree_free_right", "bintree_free"]}
LISTF = ["bintree_iterate_list", "list_left_iterator", "list_right_iterator", "bintree_next", "bintree_traverse_list"]

def shapes(n):
    """every binary tree shape with n nodes as the list of left-subtree sizes in pre-order"""
    if n == 0:
        return [[]]
    out = []
    for l in range(n):
        for a in shapes(l):
            for b in shapes(n - 1 - l):
                out.append([l] + a + b)
    return out

def _tiers(quick):
    return ("quick", "thorough") if quick else ("thorough",)

def _enum(nm, fns, n, quick, l0=None):
    N = max(n, 1)
    defs = ["-DN=%d" % N, "-DENUM_N=%d" % n] + (["-DENUM_L0=%d" % l0] if l0 is not None else [])
    return H("%s_all_shapes_n%d%s" % (nm, n, "" if l0 is None else "_l%d" % l0), F, "h_enum_" + nm, fns, defs=defs, unwind=100, timeout=1200,
             tiers=_tiers(quick), solvers=("cadical",), cover=False, floor=20,
             bounded="every binary tree shape with exactly %d nodes%s, enumerated with concrete values inside one query (shape count asserted against the Catalan number)"
                     % (n, "" if l0 is None else " whose root has a left subtree of %d nodes" % l0))

def _shape(nm, fns, ls, quick, pool=False, timeout=900):
    n = len(ls)
    N = max(n, 1)
    defs = ["-DN=%d" % N, "-DK=1", "-DSHAPE_N=%d" % n, "-DSHAPE_LS=%s" % ",".join(str(x) for x in ls + [0])] + (["-DPOOLFREE"] if pool else [])
    return H("%s%s_shape_%d_%s" % (nm, "_pool" if pool else "", n, "".join(str(x) for x in ls) or "empty"), F, "h_" + nm, fns, defs=defs, unwind=N + 5,
             unwindset=[r % (N + 2) for r in REC], timeout=timeout, tiers=_tiers(quick), solvers=("cadical",), cover=False, floor=20,
             bounded="one concrete tree shape (%d nodes, left-subtree sizes %s); the tier enumerates every shape up to its node bound" % (n, ls),
             note="shape: n=%d ls=%s" % (n, ls))

def _list(k, d, quick):
    return H("iter_list_%s_k%d" % ("right" if d else "left", k), F, "h_iter_list", LISTF, defs=["-DN=2", "-DK=%d" % max(k, 1), "-DSPINE_K=%d" % k, "-DSPINE_DIR=%d" % d],
             unwind=max(k, 1) + 5, unwindset=["bintree_traverse_list:%d" % (k + 4)], timeout=900, tiers=_tiers(quick), solvers=("cadical",), floor=10,
             bounded="%s-leaning list spine of exactly %d list nodes; the elements' own children (present or not, flagged as list nodes or not) are symbolic"
                     % ("right" if d else "left", k))

HS = []
for n in range(0, 8):
    if n <= 6:
        HS += [_enum("iter_in_order", IN_F, n, n <= 5), _enum("iter_pre_order", PRE_F, n, n <= 5)]
    else:
        for l0 in range(n):
            HS += [_enum("iter_in_order", IN_F, n, False, l0), _enum("iter_pre_order", PRE_F, n, False, l0)]
for n in range(0, 6):
    for ls in shapes(n):
        HS.append(_shape("iter_post_order", POST_F, ls, n <= 4))
for n in range(0, 5):
    for ls in shapes(n):
        for nm, fns in FREE_F.items():
            if n == 0 and nm != "free":
                continue
            if n <= 3:
                HS.append(_shape(nm, fns, ls, True))               # malloc/free: exact use-after-free obligation
            else:
                HS.append(_shape(nm, fns, ls, False, pool=True, timeout=1800))   # pool + junk-on-free
for k in range(0, 9):
    for d in (0, 1):
        if k == 0 and d == 1:
            continue
        HS.append(_list(k, d, k <= 4))

def _mc(tier, recs):
    import re
    per_op, spines = {}, set()
    for h, r in recs:
        m = re.match(r"(\w+?)_all_shapes_n(\d+)(?:_l(\d+))?$", h.name)
        if m:
            n, l0 = int(m.group(2)), m.group(3)
            ss = [tuple(x) for x in shapes(n) if l0 is None or (x and x[0] == int(l0))]
            per_op.setdefault(m.group(1), set()).update(ss)
            continue
        m = re.match(r"(\w+?)(_pool)?_shape_(\d+)_(\w+)$", h.name)
        if m:
            ls = tuple(int(c) for c in m.group(4)) if m.group(4) != "empty" else ()
            per_op.setdefault(m.group(1) + (m.group(2) or ""), set()).add(ls)
            continue
        m = re.match(r"iter_list_(left|right)_k(\d+)$", h.name)
        if m:
            spines.add((m.group(1), int(m.group(2))))
    allshapes = set().union(*per_op.values()) if per_op else set()
    trans = sum(len(v) for v in per_op.values()) + len(spines)
    return {"states": len(allshapes) + len(spines), "transitions": trans, "traces_validated_against_impl": trans,
            "rule_model_checking": "states = distinct tree shapes (node count + left-subtree sizes) and list spines realised in memory by discharged harnesses of this run; "
                                   "transitions = (operation, shape) pairs, i.e. runs of one real iterator / bintree_free variant to completion on one shape; every one of them is an execution "
                                   "of the real /repo code inside CBMC (there is no separate model), hence traces_validated_against_impl = transitions",
            "shapes_per_operation": {k: len(v) for k, v in sorted(per_op.items())}, "exhaustive": True}

prop("C11", "model_checking",
     "Harness-enforced contracts on the real bintree.c iterators and bintree_free over a bounded universe of tree shapes (DESIGN P4), enumerated exhaustively: an abstract shape is the "
     "node count and the size of every node's left subtree; the harness realises it in memory, runs the real code and checks the statement's postconditions - the iterator returns each "
     "node once, in the order of the file's own recursive traversal and of an independent recursive reference over the abstract shape; after completion every left/right link has its "
     "original value; the list iterator equals the recursive list traversal on left- and right-leaning spines; bintree_free[_left/_right] hand every node of the subtree to the "
     "deallocator once, children first, and clear the parent's link. In the malloc variant the deallocator stub really free()s each node (own malloc object), so CBMC's dereference "
     "checks are the 'never reads a node after deallocation' obligation. In-order and pre-order: all shapes of one node count in one query (concrete enumeration inside the harness). "
     "Post-order and free keep a mark in bit 0 of a pointer, which CBMC cannot constant-fold, so they are one query per shape.",
     HS, jobs=10, mc=_mc,
     trusted=["CBMC models of malloc/free (deallocated-object tracking)"],
     assumptions=["nodes are at least 2-byte aligned (pool nodes are naturally aligned): the post-order iterator keeps a mark in bit 0 of the left pointer",
                  "bintree.c is not part of the library build; the harness includes it directly",
                  "quick: in/pre-order every shape <= 5 nodes, post-order <= 4, free/free_left/free_right <= 3 (malloc variant), list spines <= 4 list nodes per direction; "
                  "thorough: in/pre-order <= 7, post-order <= 5, free <= 3 (malloc) and 4 (pool variant: deallocation overwrites the node's links with arbitrary junk instead of free()), spines <= 8"])
claim("C11", "model_checking",
      "CBMC harness-enforced contracts on the real bintree.c iterators / bintree_free over an exhaustively enumerated bounded universe of tree shapes; recursive traversals and an independent reference as oracle",
      "Every tree shape up to the tier's node bound (quick: 5 in/pre-order, 4 post-order, 3 free; thorough: 7 / 5 / 4) is checked: order, exactly-once, link restoration, deallocation order, parent link cleared, and (malloc variant) no access to a deallocated node. Larger shapes are not covered.",
      "Bounded stand-in, never counted as proved: CBMC has no inductive heap predicates and a fully symbolic shape costs minutes per query already at 4 nodes, so shapes are enumerated. Random larger shapes of the record's quantifier are not sampled (different technique).",
      "DESIGN.md 5.C11")
mut("C11", "in-order-thread-left-in-place", [("librfn/bintree.c", "\t\t\tprev->right = NULL;\n\t\t\titer->curr = curr->right;\n\t\t\treturn curr;", "\t\t\titer->curr = curr->right;\n\t\t\treturn curr;")], r"C11|dereference|unwinding", skip_tests=True)
mut("C11", "post-order-tag-not-cleared", [("librfn/bintree.c", "\t\t/* unmark this node */\n\t\ttmp->left =\n\t\t    (bintree_node_t *)(((uintptr_t)tmp->left) & (uintptr_t)-2);\n", "")], r"C11|dereference|unwinding", skip_tests=True)
mut("C11", "free-reads-node-after-dealloc", [("librfn/bintree.c", "\t\tdealloc(n);\n\n\t\tif (iter.parent) {", "\t\tdealloc(n);\n\t\tif (n->left) n->left = NULL;\n\n\t\tif (iter.parent) {")], r"C11|dereference|deallocated", skip_tests=True)
