from api import H, prop, mut, claim, SHARED, PROPERTIES
IQ = SHARED["irq"](3, 2, 2, ("quick",), 1500)
IT = SHARED["irq"](4, 3, 3, ("thorough",), 7200)
SEQ = [h for h in SHARED["sched_thorough"] if h.entry in ("h_drain", "h_run_atomic")]   # sequential versions: thorough tier only (they are part of C01's quick tier)
MQ = list(PROPERTIES["C04"]["harnesses"])   # the many-sender message queue proof: kernel.atomic_runq and every event queue are message queues
prop("C06", "model_checking",
     "Lemmas of DESIGN 5.C06, each a machine-checked contract on the real fibre.c compiled against a shadow <stdatomic.h> that lets interrupt handlers post fibre_run_atomic requests before every atomic "
     "operation of the verified code (and overwrites a slot's payload the moment the main context releases it): L1 fibre_run_atomic (accepted => queued exactly once, in order, nothing else touched; refused => "
     "taint and nothing queued), L2 handle_atomic_runq (every request pending at entry handled exactly once in arrival order from its own payload, later arrivals handled or still pending - proved as a loop-cut step: one iteration from an arbitrary invariant state with up to 8 requests pending and any number arriving at every interruption point, so neither arrivals nor iterations are bounded; the thorough tier adds a bounded multi-iteration run of the whole loop as a cross-check), L3 fibre_scheduler_next "
     "(a request pending at the fast-path test forces the slow path; queues never corrupted; C03's return clause), L4 fibre_eventq_send (event published before the wake-up is posted, payload intact, received once). "
     "The queue-level facts (no buffer handed out twice, claim order, exactly-once) for ANY number of senders including free-running threads are the C04 proof, re-run here. "
     "The end-to-end sentence 'dispatched by a subsequent fibre_scheduler_next without further stimulus' is the written composition L1 -> L2/L3 -> C01 (FIFO) -> C03 (no oversleep) of DESIGN 5.C06.",
     IQ + IT + SEQ + MQ,
     trusted=SHARED["TRUST"] + ["interrupt handlers run to completion between two atomic operations of the main context (nested handlers included); free-running sender threads are covered at the queue level by the C04 harnesses only",
                                "the composition of the lemmas into the liveness-flavoured end-to-end sentence is a paper argument (DESIGN 5.C06)"],
     assumptions=SHARED["ASSUME"] + ["requests arriving during a verified call are limited only by the queue's capacity (8); the thorough tier's multi-iteration cross-check of the drain loop bounds them (3 pending, 3 arrivals)"], mc=SHARED["mc"])
claim("C06", "model_checking",
      "contract lemmas L1-L4 on the real fibre.c under a shadow <stdatomic.h> firing interrupt-context requests at every atomic operation (thread-modular, CBMC), plus the C04 many-sender queue proof; written composition for the end-to-end sentence",
      "Each lemma holds for every invariant scheduler state of a pool of 3 / 4 fibres, every interruption point (each atomic operation) and every choice of arriving requests (any number, up to the queue's capacity, at each point); queue-level safety holds for any number of senders (C04).",
      "Bounded pool (labelled bounded, not proved); run-to-completion handlers at the scheduler level; 'eventually dispatched' is a composition argument on paper, not a checked liveness property.",
      "DESIGN.md 5.C06")
mut("C06", "eventq-wakeup-before-publish", [("librfn/fibre.c", "\tmessageq_send(&evtq->eventq, evtp);\n\treturn fibre_run_atomic(&evtq->fibre);", "\tbool res = fibre_run_atomic(&evtq->fibre);\n\tmessageq_send(&evtq->eventq, evtp);\n\treturn res;")], r"C06", skip_tests=True)
mut("C06", "fast-path-ignores-atomic-queue", [("librfn/fibre.c", "\t    !list_empty(&kernel.timerq) ||\n\t    !messageq_empty(&kernel.atomic_runq)) {", "\t    !list_empty(&kernel.timerq)) {")], r"C06|C03|C01", skip_tests=True)
mut("C06", "release-before-payload-read", [("librfn/fibre.c", "\t\tmake_runnable(*f);\n\t\tmessageq_release(&kernel.atomic_runq, f);", "\t\tmessageq_release(&kernel.atomic_runq, f);\n\t\tmake_runnable(*f);")], r"C06", skip_tests=True)
