#!/usr/bin/env python3
"""
confirm_seed.py <PROPERTY> <N> [--what "needs ..."]

Confirms a seeded change delivered by an independent sub-agent in /tmp/seedout/<PROPERTY>/change<N>.diff + demo<N>.c|sh
in a scratch worktree of /repo (/tmp/wt/<PROPERTY>, outside /repo and /verif):
  1. demo passes (exit 0) on the unchanged tree,
  2. with the change applied: the tree builds, `make check` passes 17/17, the demo fails (non-zero exit),
  3. the worktree is restored.
Only then is it stored as /verif/seeded/<PROPERTY>-<N>/ (patch.diff, demo.*, notes.md, meta.json).
"""
import json, os, re, shutil, subprocess, sys

def sh(cmd, cwd=None, timeout=1800):
    p = subprocess.run(cmd, shell=True, cwd=cwd, stdout=subprocess.PIPE, stderr=subprocess.STDOUT, text=True, timeout=timeout)
    return p.returncode, p.stdout

def demo_command(path):
    txt = open(path).read()
    if path.endswith(".sh"):
        return "sh " + path
    lines = txt.split("\n")[:60]
    cmd, on = [], False
    for ln in lines:
        s = re.sub(r"^\s*(/\*+|\*+/?|//)\s?", "", ln).strip()
        if not on and re.match(r"^(\$ )?(\w+=\S+;\s*)?(gcc|clang|cc)\b", s):
            on = True
        if on:
            s = re.sub(r"^\$ ", "", s)
            cont = s.endswith("\\")
            cmd.append(s.rstrip("\\").strip())
            if not cont:
                break
    c = " ".join(cmd)
    return re.sub(r"\s*;\s*echo\s+[^;&]*\$\?[^;&]*$", "", c)

def main():
    pid, n = sys.argv[1], sys.argv[2]
    wt, out = "/tmp/wt/" + pid, "/tmp/seedout/" + pid
    diff = os.path.join(out, "change%s.diff" % n)
    demo = next(os.path.join(out, f) for f in ("demo%s.c" % n, "demo%s.sh" % n) if os.path.exists(os.path.join(out, f)))
    cmd = demo_command(demo)
    if not cmd:
        print("cannot find the compile command in", demo); return 2
    print("demo command:", cmd)
    log = {}
    def tests():
        rc, o = sh("make 2>&1 | tail -3; make check 2>&1 | grep -E '^# (PASS|FAIL|ERROR):'", cwd=wt)
        return " ".join(o.split()[-9:])
    sh("git checkout -- . && make >/dev/null 2>&1", cwd=wt)
    rc0, o0 = sh(cmd, cwd=out)
    log["demo_unchanged"] = rc0
    rc, o = sh("git apply " + diff, cwd=wt)
    if rc != 0:
        print("patch does not apply:", o); return 1
    t = tests()
    log["tests_with_change"] = t
    rc1, o1 = sh(cmd, cwd=out)
    log["demo_with_change"] = rc1
    sh("git checkout -- . && make >/dev/null 2>&1", cwd=wt)
    rc2, o2 = sh(cmd, cwd=out)
    log["demo_after_revert"] = rc2
    print(json.dumps(log))
    ok = rc0 == 0 and rc2 == 0 and rc1 != 0 and "# PASS: 17" in t and "# FAIL: 0" in t and "# ERROR: 0" in t
    if not ok:
        print("NOT CONFIRMED\n--- unchanged:\n%s\n--- with change:\n%s" % (o0[-1500:], o1[-1500:])); return 1
    d = os.path.join(os.path.dirname(os.path.dirname(os.path.abspath(__file__))), "seeded", "%s-%s" % (pid, n))
    os.makedirs(d, exist_ok=True)
    shutil.copy(diff, os.path.join(d, "patch.diff"))
    shutil.copy(demo, os.path.join(d, "demo" + os.path.splitext(demo)[1]))
    notes = os.path.join(out, "notes%s.md" % n)
    if os.path.exists(notes):
        shutil.copy(notes, os.path.join(d, "notes.md"))
    meta = {"property": pid, "origin": "independent sub-agent given only the property text and a scratch worktree",
            "demo_cmd": cmd.replace(wt, "{REPO}").replace(out + "/demo%s" % n, "{SEED}/demo").replace(out, "{SEED}"),
            "confirmed": {"demo_exit_unchanged": rc0, "demo_exit_with_change": rc1, "demo_exit_after_revert": rc2,
                          "make_check_with_change": t, "demo_output_with_change": o1[-600:]},
            "what_i_ran": "run/confirm_seed.py %s %s (scratch worktree %s): demo on unchanged tree, git apply, make, make check, demo, git checkout, make, demo" % (pid, n, wt),
            "needs_to_manifest": "", "caught_by": None, "caught_by_obligation": "."}
    mp = os.path.join(d, "meta.json")
    if os.path.exists(mp):
        old = json.load(open(mp))
        for k in ("needs_to_manifest", "caught_by", "caught_by_obligation", "only"):
            if old.get(k):
                meta[k] = old[k]
    json.dump(meta, open(mp, "w"), indent=1)
    print("CONFIRMED ->", d)
    return 0

if __name__ == "__main__":
    sys.exit(main())
