"""Self-test mutant catalogue (DESIGN 'Tier plan and self-test mutants').  Each mutant is a
realistic change that compiles and passes `make check`; 'expect' is a regex over the name of
the obligation that must fail."""
import registry  # loads run/props/*.py, which may register mutants too
from api import mut, MUTANTS

# C16 - bitopstest/constexprtest catch every single-constant change I tried (0x11111111, 0xcccccccc and all-ones between
# them touch every mask bit), so these are machinery tests only: skip_tests=True means "known to be caught by make check too".
mut("C16", "bitcnt-mask-nibble", [("librfn/bitops.c", "& 0x0F0F0F0F;", "& 0x0F0F0F07;")], r"bitcnt", skip_tests=True)
mut("C16", "clz-smear-dropped", [("librfn/bitops.c", "\tx = x | (x >> 4);\n", "")], r"clz", skip_tests=True)
mut("C16", "ctz-off", [("librfn/bitops.c", "return bitcnt(~x & (x - 1));", "return bitcnt(~x & (x - 1)) & 31;")], r"ctz", skip_tests=True)
mut("C16", "const_lssb-step", [("include/librfn/constexpr.h", "const_lssb4(c >> 4) + 4)", "const_lssb4(c >> 4) + 3)")], r"const_lssb", skip_tests=True)
mut("C16", "bitcnt-top-nibble-mask", [("librfn/bitops.c", "& 0x0F0F0F0F;", "& 0x1F0F0F0F;")], r"bitcnt", skip_tests=True)
mut("C16", "clz-smear-2-to-3", [("librfn/bitops.c", "x = x | (x >> 2);", "x = x | (x >> 3);")], r"clz", skip_tests=True)
mut("C16", "ctz-special-case", [("librfn/bitops.c", "return bitcnt(~x & (x - 1));", "return (x & 0x00ffffff) ? bitcnt(~x & (x - 1)) : bitcnt(~x & (x - 1)) | 24;")], r"ctz", skip_tests=True)
mut("C16", "const_pop-shift", [("include/librfn/constexpr.h", "const_pop16(c >> 16))", "const_pop16(c >> 16 & 0xfffeffff))")], r"const_pop", skip_tests=True)
# C17
mut("C17", "rand-fold-boundary", [("librfn/rand.c", "if (lo > 0x7fffffff)", "if (lo > 0x80000000)")], r"rand31_r")
mut("C17", "rand-hi-shift", [("librfn/rand.c", "lo += hi >> 15;", "lo += hi >> 16;")], r"rand31_r", skip_tests=True)
mut("C17", "rand-no-fold", [("librfn/rand.c", "\tif (lo > 0x7fffffff)\n\t\tlo -= 0x7fffffff;\n", "\tlo &= 0x7fffffff;\n")], r"rand31_r", skip_tests=True)
mut("C17", "rand-mask", [("librfn/rand.c", "(hi & 0x7fff) << 16", "(hi & 0xffff) << 16")], r"rand31_r", skip_tests=True)

# C19
mut("C19", "rotenc-table-entry-wrong-group", [("librfn/rotenc.c", "\tcase FROM(1, 1) | TO(1, 0):\n", ""), ("librfn/rotenc.c", "\tcase FROM(1, 1) | TO(0, 1):\n", "\tcase FROM(1, 1) | TO(0, 1):\n\tcase FROM(1, 1) | TO(1, 0):\n")], r"position changes by", skip_tests=True)
mut("C19", "rotenc-latch-every-call", [("librfn/rotenc.c", "\tif (!state)\n\t\tr->count", "\tif (state != 3)\n\t\tr->count")], r"latched|detent|invariant", skip_tests=True)
mut("C19", "rotenc-count14-splice-back", [("librfn/rotenc.c", "\treturn r->count;", "\treturn ((r->internal_count >> 2) & 0x3f00) + (r->count & 0xff);")], r"count14")
mut("C19", "rotenc-count14-live", [("librfn/rotenc.c", "\treturn r->count;", "\treturn r->internal_count >> 2;")], r"count14|detent", skip_tests=True)

# C12
mut("C12", "pack-exact-fit-lt", [("librfn/pack.c", "\tpack->p += sz; \\\n\tif (pack->p <= pack->endp)", "\tpack->p += sz; \\\n\tif (pack->p < pack->endp)")], r"least significant|most significant|copies|postcondition")
mut("C12", "unpack-exact-fit-ge", [("librfn/pack.c", "\tif (pack->p > pack->endp) \\", "\tif (pack->p >= pack->endp) \\")], r"rf_unpack_")
mut("C12", "pack-u16be-swapped", [("librfn/pack.c", "\t\tp[0] = (u16 >> 8) & 0xff;\n\t\tp[1] = u16 & 0xff;", "\t\tp[1] = (u16 >> 8) & 0xff;\n\t\tp[0] = u16 & 0xff;")], r"rf_pack_u16be")
mut("C12", "unpack-s8-masked", [("librfn/pack.c", "int8_t s8 = p[0];", "int8_t s8 = p[0] & 0x7f;")], r"rf_unpack_s8")
mut("C12", "unpack-bytes-no-zero-fill", [("librfn/pack.c", "\t} else {\n\t\tif (p)\n\t\t\tmemset(p, 0, sz);\n\t}", "\t}")], r"zero-fills")
mut("C12", "pack-bytes-null-ones", [("librfn/pack.c", "memset(q, 0, sz);", "memset(q, 0xff, sz);")], r"NULL source packs zeros")
mut("C12", "pack-s16le-sign", [("librfn/pack.c", "\t\tp[0] = s16 & 0xff;\n\t\tp[1] = (s16 >> 8) & 0xff;", "\t\tp[0] = s16 & 0xff;\n\t\tp[1] = (s16 >> 8) & 0x7f;")], r"rf_pack_s16le")
mut("C12", "unpack-no-advance-on-overflow", [("librfn/pack.c", "\tif (pack->p > pack->endp) \\\n\t\treturn 0; \\", "\tif (pack->p > pack->endp) { \\\n\t\tpack->p = pack->endp; return 0; } \\")], r"cursor advances|postcondition")
mut("C12", "remaining-clamped", [("librfn/pack.c", "\treturn pack->endp - pack->p;", "\treturn pack->endp > pack->p ? pack->endp - pack->p : 0;")], r"rf_pack_remaining")

# C14
mut("C14", "unpack-u16le-no-bounds-test", [("librfn/pack.c", "\tUNPACK(pack, p, 2) {\n\t\tuint16_t u16", "\tuint8_t *p = pack->p;\n\tpack->p += 2;\n\t{\n\t\tuint16_t u16")], r"dereference failure|rf_unpack_u16le")
mut("C14", "decode-hides-overrun", [("librfn/wavheader.c", "\t * the return value will be larger than the value supplied.\n\t */\n\treturn sz - rf_pack_remaining(&pack);\n}\n\nint rf_wavheader_encode", "\t * the return value will be larger than the value supplied.\n\t */\n\treturn rf_pack_remaining(&pack) < 0 ? (int) sz : (int) (sz - rf_pack_remaining(&pack));\n}\n\nint rf_wavheader_encode")], r"truncating|number of bytes|postcondition")
mut("C14", "decode-F4-reverted", [("librfn/wavheader.c", "\tif (wh->fmt_chunk_size > 0x7fffff00)\n\t\treturn -EINVAL;\n", "")], r"C14 decode returns|number of bytes|wrapped length")
mut("C14", "tostring-F5-reverted", [("librfn/wavheader.c", "wh->block_align ?\n\t\t\t\twh->data_chunk_size / wh->block_align : 0,", "wh->data_chunk_size / wh->block_align,")], r"division")

# C13
mut("C13", "init-fmt-size-swapped", [("librfn/wavheader.c", "wh->fmt_chunk_size = (format == RF_WAVHEADER_FLOAT ? 18 : 16);", "wh->fmt_chunk_size = (format == RF_WAVHEADER_FLOAT ? 16 : 18);")], r"C13 init|rf_wavheader_init")
mut("C13", "set-num-frames-no-subtract", [("librfn/wavheader.c", "\twh->chunk_size -= wh->data_chunk_size;\n", "")], r"set_num_frames")
mut("C13", "init-F3-chunk-size-reverted", [("librfn/wavheader.c", "\twh->chunk_size = 4 + (8 + wh->fmt_chunk_size) + 8;", "\twh->chunk_size = 12 + 18 + 12 + 8;"), ("librfn/wavheader.c", "\t\twh->chunk_size += 12; // fact chunk\n", "")], r"RIFF chunk size|rf_wavheader_init")
mut("C13", "init-F3-memset-reverted", [("librfn/wavheader.c", "\tmemset(wh, 0, sizeof(*wh));\n\n\tmemcpy(wh->chunk_id, riff, 4);", "\tmemcpy(wh->chunk_id, riff, 4);")], r"no stale field|rf_wavheader_init")
mut("C13", "set-num-frames-F3b-reverted", [("librfn/wavheader.c", "\tif (0 == memcmp(fact, wh->fact_chunk_id, 4))\n\t\twh->sample_length", "\twh->sample_length")], r"set_num_frames")
mut("C13", "encode-ext-order", [("librfn/wavheader.c", "\t\t\trf_pack_u16le(&pack, wh->valid_bits_per_sample);\n\t\t\trf_pack_u32le(&pack, wh->channel_mask);", "\t\t\trf_pack_u32le(&pack, wh->channel_mask);\n\t\t\trf_pack_u16le(&pack, wh->valid_bits_per_sample);")], r"reproduces exactly")
mut("C13", "init-block-align-s32", [("librfn/wavheader.c", "uint8_t bytes_per_sample = (format == RF_WAVHEADER_S16LE ? 2 : 4);", "uint8_t bytes_per_sample = (format == RF_WAVHEADER_FLOAT ? 4 : 2);")], r"C13 init|rf_wavheader_init")
mut("C13", "decode-fact-swallows-data-id", [("librfn/wavheader.c", "\t\twh->sample_length = rf_unpack_u32le(&pack);\n\n\t\trf_unpack_bytes(&pack, wh->data_chunk_id, 4);", "\t\twh->sample_length = rf_unpack_u32le(&pack);\n\n\t\trf_unpack_bytes(&pack, wh->data_chunk_id, 4);\n\t\tif (wh->fact_chunk_size > 12)\n\t\t\tmemcpy(wh->data_chunk_id, data, 4);")], r"reproduces exactly")

# C20
mut("C20", "mlog-fold-255", [("librfn/mlog.c", "\t\tlog.head -= lengthof(log.line);", "\t\tlog.head -= lengthof(log.line) - 1;")], r"counter invariant|vmlog.postcondition")
mut("C20", "mlog-getline-off-by-one-after-wrap", [("librfn/mlog.c", "\t\tn += log.head;", "\t\tn += log.head + 1;")], r"line k is the slot|get_line.postcondition", skip_tests=True)
mut("C20", "mlog-nice-le", [("librfn/mlog.c", "if (log.head < lengthof(log.line))\n\t\tvmlog", "if (log.head <= lengthof(log.line))\n\t\tvmlog")], r"mlog_nice|vmlog_nice", skip_tests=True)
mut("C20", "mlog-getline-gt", [("librfn/mlog.c", "if (n >= log.head || n >= lengthof(log.line))", "if (n > log.head || n >= lengthof(log.line))")], r"line k is the slot|get_line.postcondition|NULL", skip_tests=True)
mut("C20", "mlog-arg-order", [("librfn/mlog.c", "log.line[head].arg[1] = va_arg(ap, uintptr_t);\n\tlog.line[head].arg[2] = va_arg(ap, uintptr_t);", "log.line[head].arg[2] = va_arg(ap, uintptr_t);\n\tlog.line[head].arg[1] = va_arg(ap, uintptr_t);")], r"stores format and three arguments")
mut("C20", "mlog-dump-from-1", [("librfn/mlog.c", "for (int i=0; (line = get_line(i)); i++)", "for (int i=1; (line = get_line(i)); i++)")], r"mlog_dump")
mut("C20", "mlog-getline-signed", [("librfn/mlog.c", "char *mlog_get_line(int n)\n{\n\tstruct mlog_line *line = get_line(n);", "char *mlog_get_line(int n)\n{\n\tstruct mlog_line *line = get_line(n < 0 ? -n : n);")], r"negative")
