#!/usr/bin/env python3
"""
seed_report.py [selftest-log ...]

Reads the output of `run/selftest.py --seeded` (one or more log files), records in every /verif/seeded/<id>/meta.json
which obligation(s) of which harness caught the change (or that it was missed / undecided), and rewrites /verif/SEEDED.md:
the table 'which check catches which seeded change' referred to by DESIGN.md section 10.
"""
import glob, json, os, re, sys
VERIF = os.path.dirname(os.path.dirname(os.path.abspath(__file__)))

def main():
    res = {}
    for path in sys.argv[1:]:
        for ln in open(path, errors="replace"):
            m = re.match(r"^(C\d+)\s+seeded/(\S+)\s+(CAUGHT-OTHER-OBLIGATION|CAUGHT|MISSED|UNDECIDED|INVALID\S*|FALSE-ALARM)\s+(.*)$", ln)
            if m:
                res[m.group(2)] = (m.group(3), m.group(4))
    rows = []
    for mp in sorted(glob.glob(os.path.join(VERIF, "seeded", "*", "meta.json"))):
        d = os.path.basename(os.path.dirname(mp))
        meta = json.load(open(mp))
        if d in res:
            st, detail = res[d]
            obs = re.findall(r"; ((?:C\d\d|[\w.]+\.(?:postcondition|assertion|pointer_dereference|unwind|precondition|assigns)[.\d]*:)[^;\[]*?)\s*(?:\(harness ([^)\s]*)[^)]*\))?\s*\[(replayed|no input)\]", "; " + detail.split("; ", 1)[-1])
            meta["caught_by"] = {"status": st, "obligations": [{"obligation": o.strip(), "harness": h, "replayed_natively": r == "replayed"} for o, h, r in obs[:4]]}
            json.dump(meta, open(mp, "w"), indent=1)
        cb = meta.get("caught_by") or {}
        notes = ""
        np_ = os.path.join(os.path.dirname(mp), "notes.md")
        first = ""
        if os.path.exists(np_):
            txt = open(np_).read()
            m = re.search(r"^#+\s*(.*)$", txt, re.M)
            first = (m.group(1) if m else txt.strip().split("\n")[0])[:110]
        ob = (cb.get("obligations") or [{}])[0]
        rows.append("| %s | %s | %s | %s | %s |" % (d, meta["property"], first.replace("|", "/"), cb.get("status", "not run"),
                                                  ("`%s` (%s%s)" % (ob.get("obligation", "")[:110].replace("|", "/"), ob.get("harness") or "-", ", replayed natively" if ob.get("replayed_natively") else "")) if ob else ""))
    with open(os.path.join(VERIF, "SEEDED.md"), "w") as f:
        f.write("# Seeded changes and the checks that catch them\n\n"
                "Each change was written by an independent sub-agent that saw only the property text and a scratch worktree of /repo; it compiles, passes the 17 unit tests, and comes with a demonstration "
                "that fails with the change and passes without it (confirmed by run/confirm_seed.py in a scratch worktree; see each meta.json). "
                "`run/selftest.py --seeded` applies each patch to a scratch copy of /repo and runs the property's quick check; this table is generated from its output by run/seed_report.py.\n\n"
                "| seed | property | what it is | result | first failing obligation (harness) |\n|---|---|---|---|---|\n" + "\n".join(rows) + "\n")
    print("%d seeds, %d with a recorded result" % (len(rows), sum(1 for r in rows if "not run" not in r)))

if __name__ == "__main__":
    main()
