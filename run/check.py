#!/usr/bin/env python3
"""
check.py - driver for the contract-based verification of librfn with CBMC.

  check.py <PROPERTY-ID> [--tier quick|thorough] [--only REGEX] [--keep] [--jobs N]
  check.py --replay <replay-file>
  check.py --list

Pipeline per harness (DESIGN.md 3.1):
  goto-cc (real /repo source is #included by the harness, compiled on every run)
  -> goto-instrument (function-pointer restriction, --replace-calls, --dfcc)
  -> cbmc (solver portfolio, timeout, memory limit) -> classification
  -> evidence/<id>.json, replay/<id>/*.replay, native replay of counterexamples.

Exit 0: every obligation discharged (or a listed known finding).
Exit 1: at least one "VIOLATION property=<id> replay=<path>" line was printed.
Exit 2: undecided (time-out, tool error, compile error, vacuity guard tripped) -
        never reported as a violation.
"""
import argparse
import concurrent.futures as cf
import json
import os
import re
import resource
import shutil
import signal
import subprocess
import sys
import threading
import time

VERIF = os.path.dirname(os.path.dirname(os.path.abspath(__file__)))
REPO = os.environ.get("VERIF_REPO", "/repo")
WORK = os.environ.get("VERIF_WORK", VERIF)   # where build/ and replay/ live (selftest points it at a scratch dir)
sys.path.insert(0, os.path.join(VERIF, "run"))

SOLVER_FLAGS = {
    "minisat": [],
    "cadical": ["--sat-solver", "cadical"],
    "cvc5": ["--cvc5"],
    "z3": ["--z3"],
}
MEM_LIMIT = int(os.environ.get("VERIF_MEM_GB", "10")) * (1 << 30)
NCPU = int(os.environ.get("VERIF_JOBS", str(os.cpu_count() or 8)))
_slots = threading.Semaphore(NCPU)
print_lock = threading.Lock()


def say(*a):
    with print_lock:
        print(*a, flush=True)


class Harness:
    """One verification query: an entry function of a harness file."""

    def __init__(self, name, src, entry, funcs, *, enforce=(), replace=(),
                 replace_calls=(), restrict_fp=(), loop_contracts=False,
                 defs=(), shadow=False, i386=False, unwind=None, unwindset=(),
                 solvers=("cadical",), timeout=600, tiers=("quick", "thorough"),
                 bounded=None, cbmc_flags=(), cover=None, floor=1,
                 externals=(), replayable=True, note="", includes=(),
                 remove_bodies=(), nondet_static=False, static_unwind=()):
        self.name, self.src, self.entry = name, src, entry
        self.funcs = list(funcs)          # real functions under contract here
        self.enforce, self.replace = list(enforce), list(replace)
        self.replace_calls = list(replace_calls)
        self.restrict_fp = list(restrict_fp)
        self.loop_contracts = loop_contracts
        self.defs, self.shadow, self.i386 = list(defs), shadow, i386
        self.unwind, self.unwindset = unwind, list(unwindset)
        # registered time-outs are about 4x the time measured on the idle 16-core machine; the scale factor leaves headroom for a loaded one
        self.solvers, self.timeout = list(solvers), int(timeout * float(os.environ.get("VERIF_TIMEOUT_SCALE", "2")))
        self.tiers = set(tiers)
        self.bounded = bounded            # None = unbounded proof; else text
        self.cbmc_flags = list(cbmc_flags)
        self.cover = cover                # None: auto (VCOVER in source)
        self.floor = floor
        self.externals = set(externals)   # functions allowed to have no body
        self.replayable = replayable
        self.note = note
        self.includes = list(includes)
        self.remove_bodies = list(remove_bodies)
        self.nondet_static = nondet_static
        # loops unwound by goto-instrument before cbmc ("fn.loopno:K"); needed where cbmc's dynamic unwinding counter
        # misbehaves on goto-formed loops (hex.c).  Unwinding assertions are inserted statically, so this is still sound.
        self.static_unwind = list(static_unwind)


# --------------------------------------------------------------------------
# process helpers

def _limits():
    os.setsid()
    resource.setrlimit(resource.RLIMIT_AS, (MEM_LIMIT, MEM_LIMIT))
    resource.setrlimit(resource.RLIMIT_CORE, (0, 0))


def run(cmd, timeout, cwd=None, stdout_path=None):
    """Run cmd in its own process group under a time and memory limit.
    Returns (rc, stdout, stderr); rc None on time-out."""
    out = open(stdout_path, "wb") if stdout_path else subprocess.PIPE
    p = subprocess.Popen(cmd, cwd=cwd, stdout=out, stderr=subprocess.PIPE,
                         preexec_fn=_limits)
    try:
        o, e = p.communicate(timeout=timeout)
        rc = p.returncode
    except subprocess.TimeoutExpired:
        kill_group(p)
        o, e = p.communicate()
        rc = None
    if stdout_path:
        out.close()
        o = b""
    return rc, (o or b"").decode(errors="replace"), (e or b"").decode(errors="replace")


def kill_group(p):
    try:
        os.killpg(p.pid, signal.SIGKILL)
    except ProcessLookupError:
        pass


class ToolError(Exception):
    pass


# --------------------------------------------------------------------------
# build + instrument

def include_flags(h):
    fl = ["-DVERIF_CBMC", "-I" + os.path.join(VERIF, "contracts")]
    if h.shadow:
        fl.append("-I" + os.path.join(VERIF, "shadow"))
    fl += ["-I" + os.path.join(VERIF, "harness"), "-I" + os.path.join(REPO, "include"),
           "-I" + REPO]
    fl += ["-I" + i for i in h.includes]
    fl += h.defs
    return fl


def build(h, wd, cover=False):
    src = os.path.join(VERIF, h.src)
    a = os.path.join(wd, "c.gb" if cover else "a.gb")
    cmd = ["goto-cc"] + (["--i386-linux"] if h.i386 else []) + include_flags(h) + \
          (["-DVERIF_COVER"] if cover else []) + ["--function", h.entry, src, "-o", a]
    rc, o, e = run(cmd, 300)
    if rc != 0:
        raise ToolError("goto-cc failed (rc=%s): %s" % (rc, (o + e)[-1500:]))
    cur = a
    n = 0

    def step(args, what):
        nonlocal cur, n
        n += 1
        nxt = os.path.join(wd, "%s%d.gb" % ("c" if cover else "s", n))
        rc, o, e = run(["goto-instrument"] + args + [cur, nxt], 600)
        txt = o + e
        if rc != 0:
            raise ToolError("goto-instrument %s failed (rc=%s): %s" % (what, rc, txt[-1500:]))
        if "not enough arguments" in txt:
            raise ToolError("goto-instrument %s: contract clause calls a function with "
                            "arguments (DESIGN 2.2): %s" % (what, txt[-800:]))
        if os.path.exists(cur) and cur != a:
            os.unlink(cur)
        cur = nxt
        return txt

    for fp in h.restrict_fp:
        step(["--restrict-function-pointer-by-name", fp], "restrict-fp")
    for rb in h.remove_bodies:
        step(["--remove-function-body", rb], "remove-body")
    if h.replace_calls:
        args = []
        for rc_ in h.replace_calls:
            args += ["--replace-calls", rc_]
        step(args, "replace-calls")
    if h.nondet_static:
        step(["--nondet-static"], "nondet-static")
    if h.static_unwind:
        args = []
        for u in h.static_unwind:
            args += ["--unwindset", u]
        step(args + ([] if cover else ["--unwinding-assertions"]), "static-unwind")
    if h.enforce or h.replace or h.loop_contracts:
        args = ["--dfcc", h.entry]
        for f in h.enforce:
            args += ["--enforce-contract", f]
        for f in h.replace:
            args += ["--replace-call-with-contract", f]
        if h.loop_contracts:
            args += ["--apply-loop-contracts"]
        step(args, "dfcc")
    return cur


# --------------------------------------------------------------------------
# solve

def cbmc_cmd(h, gb, solver, extra=(), cover=False, ui="json"):
    cmd = ["cbmc", gb, "--drop-unused-functions"] + (["--json-ui"] if ui == "json" else ["--verbosity", "9"])  # 9: solver statistics
    if h.unwind is not None:
        cmd += ["--unwind", str(h.unwind)]
    for us in h.unwindset:
        cmd += ["--unwindset", us]
    if (h.unwindset or h.unwind is not None) and not cover:
        cmd += ["--unwinding-assertions"]
    cmd += h.cbmc_flags + SOLVER_FLAGS[solver] + list(extra)
    return cmd


def parse_json_ui(path):
    try:
        with open(path) as f:
            data = json.load(f)
    except Exception as ex:  # truncated output after a kill
        return None, "unparsable cbmc output: %s" % ex
    res = {"results": None, "status": None, "messages": [], "goals": None,
           "vccs": None, "vccs_remaining": None, "solver_s": None, "errors": []}
    for e in data:
        if "result" in e:
            res["results"] = e["result"]
        elif "goals" in e:
            res["goals"] = e["goals"]
        elif "cProverStatus" in e:
            res["status"] = e["cProverStatus"]
        elif "messageText" in e:
            t = e["messageText"]
            mt = e.get("messageType", "")
            m = re.search(r"Generated (\d+) VCC\(s\), (\d+) remaining", t)
            if m:
                res["vccs"], res["vccs_remaining"] = int(m.group(1)), int(m.group(2))
            m = re.search(r"Runtime [Dd]ecision [Pp]rocedure: ([0-9.]+)s", t)
            if m:
                res["solver_s"] = (res["solver_s"] or 0) + float(m.group(1))
            if mt == "ERROR":
                res["errors"].append(t)
            if mt in ("WARNING", "ERROR") or "no body" in t or "ignoring" in t:
                res["messages"].append(t)
    return res, None


def parse_text_ui(path):
    """Verdict runs use the plain-text UI: the JSON UI embeds a full counterexample trace for every failed
    property, which for a 2^31-byte symbolic buffer means tens of gigabytes."""
    res = {"results": [], "status": None, "messages": [], "goals": None,
           "vccs": None, "vccs_remaining": None, "solver_s": None, "errors": []}
    cur_file, cur_fn = "", ""
    try:
        f = open(path, errors="replace")
    except OSError as ex:
        return None, str(ex)
    with f:
        for ln in f:
            ln = ln.rstrip("\n")
            m = re.match(r"^\[(\S+)\] (?:line (\d+) )?(.*): (SUCCESS|FAILURE|UNKNOWN|ERROR)$", ln)
            if m:
                res["results"].append({"property": m.group(1), "description": m.group(3), "status": m.group(4),
                                       "sourceLocation": {"file": cur_file, "function": cur_fn, "line": m.group(2)}})
                continue
            m = re.match(r"^(\S.*) function (\S+)$", ln)
            if m:
                cur_file, cur_fn = m.group(1), m.group(2)
                continue
            m = re.search(r"Generated (\d+) VCC\(s\), (\d+) remaining", ln)
            if m:
                res["vccs"], res["vccs_remaining"] = int(m.group(1)), int(m.group(2))
            m = re.search(r"Runtime [Dd]ecision [Pp]rocedure: ([0-9.]+)s", ln)
            if m:
                res["solver_s"] = (res["solver_s"] or 0) + float(m.group(1))
            if ln.startswith("VERIFICATION "):
                res["status"] = ln.split()[1].lower()
            if "no body for" in ln or "ignoring" in ln or "WARNING" in ln:
                res["messages"].append(ln)
            if ln.startswith("ERROR") or "Out of memory" in ln or "CONVERSION ERROR" in ln or "PARSING ERROR" in ln:
                res["errors"].append(ln)
    if res["status"] in (None, "error"):
        res["errors"].append("cbmc ended with status %s" % res["status"])
    if res["status"] is None:
        res["results"] = None
    return res, None


def excluded_properties(h, gb, wd):
    """CBMC reports checks that follow a failing pointer-relation check as UNKNOWN, so the accepted check classes
    (accepted_ub.json) are taken out of the run up front: list all properties, drop those of an accepted class,
    and select the remainder explicitly with --property.  Returns (selection_args, excluded_records, n_selected)."""
    if not ACCEPTED:
        return [], [], None
    outp = os.path.join(wd, "props.json")
    rc, o, e = run(cbmc_cmd(h, gb, h.solvers[0], ["--show-properties"]), 300, stdout_path=outp)
    try:
        data = json.load(open(outp))
    except Exception as ex:
        raise ToolError("cannot list properties: %s %s" % (ex, e[-300:]))
    props = [p for el in data if "properties" in el for p in el["properties"]]
    excl, keep = [], []
    for p in props:
        r = {"property": p["name"], "description": p["description"], "sourceLocation": p.get("sourceLocation")}
        why = accepted_reason(r)
        if why:
            excl.append({"obligation": obligation_name(r), "reason": why})
        else:
            keep.append(p["name"])
    if not excl:
        return [], [], None
    args = []
    for k in keep:
        args += ["--property", k]
    return args, excl, sum(1 for k in keep if not re.search(r"\.(unwind|recursion)(\.\d+)?$", k))


def solve(h, gb, wd):
    """CBMC reports checks that depend on a failed generated check as UNKNOWN.  Iterate: keep the failures found
    so far, take them out of the selection and re-run until every remaining property has a verdict."""
    sel_args, excluded, n_sel = excluded_properties(h, gb, wd)
    failed_so_far = []
    v = None
    for rnd in range(6):
        v = solve_once(h, gb, wd, sel_args, n_sel, time_left=h.timeout)
        v["excluded"] = excluded
        unknown = [r for r in v["results"] if r["status"] == "UNKNOWN"]
        fails = [r for r in v["results"] if r["status"] == "FAILURE"]
        if not unknown:
            break
        if not fails:
            raise ToolError("cbmc left %d properties UNKNOWN without reporting a failure" % len(unknown))
        failed_so_far += fails
        keep = [r["property"] for r in v["results"] if r["status"] != "FAILURE"
                and not re.search(r"\.(unwind|recursion)(\.\d+)?$", r["property"])]
        sel_args, n_sel = [], len(keep)
        for k in keep:
            sel_args += ["--property", k]
    else:
        raise ToolError("properties still UNKNOWN after 6 rounds")
    v["results"] = failed_so_far + v["results"]
    return v


def solve_once(h, gb, wd, sel_args, n_sel, time_left):
    """Run the solver portfolio; first definitive verdict wins.  Returns dict."""
    procs = {}
    outs = {}
    t0 = time.time()
    for s in h.solvers:
        _slots.acquire()
        outp = os.path.join(wd, "out.%s.txt" % s)
        outs[s] = outp
        cmd = cbmc_cmd(h, gb, s, sel_args, ui="text")
        procs[s] = (subprocess.Popen(cmd, stdout=open(outp, "wb"), stderr=open(outp + ".err", "wb"),
                                     preexec_fn=_limits), cmd)
    verdicts = {}
    pending = set(procs)
    deadline = t0 + h.timeout
    try:
        while pending:
            for s in list(pending):
                p, cmd = procs[s]
                if p.poll() is not None:
                    pending.discard(s)
                    _slots.release()
                    res, err = parse_text_ui(outs[s])
                    if res is None or res["results"] is None:
                        stderr = open(outs[s] + ".err", errors="replace").read()[-600:]
                        verdicts[s] = {"definitive": False,
                                       "why": err or ("no result (rc=%s) %s %s" % (
                                           p.returncode, "; ".join((res or {}).get("errors", []))[-400:], stderr))}
                    else:
                        res["definitive"] = not res["errors"] and all(
                            r["status"] in ("SUCCESS", "FAILURE", "UNKNOWN") for r in res["results"])
                        res["why"] = "; ".join(res["errors"])[-400:] if res["errors"] else ""
                        res["wall_s"] = time.time() - t0
                        res["cmd"] = " ".join(cmd)
                        verdicts[s] = res
            if any(v.get("definitive") for v in verdicts.values()):
                # give the others a short grace period for the agreement check
                if not pending or time.time() > t0 + max(v.get("wall_s", 0) for v in verdicts.values() if v.get("definitive")) + 2:
                    break
            if time.time() > deadline:
                break
            time.sleep(0.2)
    finally:
        for s in pending:
            kill_group(procs[s][0])
            procs[s][0].wait()
            _slots.release()
            verdicts.setdefault(s, {"definitive": False, "why": "stopped (time-out or another back end answered first)"})
    good = [(s, v) for s, v in verdicts.items() if v.get("definitive")]
    if not good:
        raise ToolError("no back end gave a definitive verdict within %ds: %s" % (
            h.timeout, "; ".join("%s: %s" % (s, v.get("why")) for s, v in verdicts.items())))
    # any two definitive verdicts must agree on the set of failed properties
    sets = {s: frozenset(r["property"] for r in v["results"] if r["status"] == "FAILURE") for s, v in good}
    if len(set(sets.values())) > 1:
        raise ToolError("back ends disagree: %s" % {s: sorted(x) for s, x in sets.items()})
    s, v = min(good, key=lambda sv: sv[1]["wall_s"])
    v["backend"] = s
    # unwinding / recursion assertions are generated during symbolic execution: they are not listed by --show-properties
    # and are reported whatever the --property selection says
    n_rep = sum(1 for r in v["results"] if not re.search(r"\.(unwind|recursion)(\.\d+)?$", r["property"]))
    if n_sel is not None and n_rep != n_sel:
        raise ToolError("selected %d properties but cbmc reported %d" % (n_sel, n_rep))
    v["cmd"] = re.sub(r"( --property \S+)+", " --property <all but the accepted check classes>", v["cmd"])
    return v


def fetch_traces(h, gb, wd, backend, ids):
    """Second run, only after a failure: ask the winning back end for counterexample traces of the failed
    properties.  Kept separate because a JSON trace through a 2^31-byte symbolic array can exhaust memory;
    if this run fails the violation is still reported, just without inputs."""
    outp = os.path.join(wd, "trace.json")
    extra = ["--trace"]
    for i in ids:
        extra += ["--property", i]
    with _slots:
        rc, o, e = run(cbmc_cmd(h, gb, backend, extra), min(h.timeout, 240), stdout_path=outp)
    res, err = parse_json_ui(outp)
    if res is None or res["results"] is None:
        return {}
    return {r["property"]: r.get("trace") for r in res["results"] if r["status"] == "FAILURE"}


def cover_pass(h, wd):
    gb = build(h, wd, cover=True)
    outp = os.path.join(wd, "cover.json")
    cmd = cbmc_cmd(h, gb, h.solvers[0], ["--cover", "cover", "--cover-failed-assertions"], cover=True)
    with _slots:
        rc, o, e = run(cmd, h.timeout, stdout_path=outp)
    if rc is None:
        raise ToolError("cover pass timed out")
    res, err = parse_json_ui(outp)
    if res is None or res["goals"] is None:
        raise ToolError("cover pass gave no goals: %s %s" % (err, e[-400:]))
    goals = [g for g in res["goals"] if (g.get("sourceLocation") or {}).get("function") == h.entry]
    bad = [g for g in goals if g.get("status") != "satisfied"]
    return len(goals), bad


# --------------------------------------------------------------------------
# classification

with open(os.path.join(VERIF, "accepted_ub.json")) as _f:
    ACCEPTED = json.load(_f)["accepted"]


def accepted_reason(r):
    fn = (r.get("sourceLocation") or {}).get("function", "") or r["property"].split(".")[0]
    fl = (r.get("sourceLocation") or {}).get("file", "")
    for a in ACCEPTED:
        if re.search(a["function"], fn) and re.search(a["description"], r["description"]) \
                and re.search(a.get("file", ""), fl):
            return a["reason"]
    return None


def obligation_name(r):
    pid = r["property"]
    if re.search(r"\.assertion\.\d+$", pid) and not pid.startswith("__CPROVER"):
        return r["description"]
    return "%s: %s" % (pid, r["description"])


def flatten(prefix, v, out):
    if v is None or "$" in prefix:
        return
    if "members" in v:
        for m in v["members"]:
            flatten(prefix + "." + m["name"], m["value"], out)
    elif "elements" in v:
        for el in v["elements"]:
            flatten("%s[%s]" % (prefix, str(el["index"]).rstrip("lLuU")), el["value"], out)
    elif "data" in v:
        d = v["data"]
        if v.get("name") == "pointer":
            out[prefix] = d
            return
        if d in ("TRUE", "true"):
            d = "1"
        elif d in ("FALSE", "false"):
            d = "0"
        d = re.sub(r"[uUlL]+$", "", d)
        if re.fullmatch(r"'.'", d):
            d = str(ord(d[1]))
        out[prefix] = d


def inputs_from_trace(trace):
    vals = {}
    for st in trace or []:
        if st.get("stepType") != "assignment":
            continue
        lhs = st.get("lhs", "")
        if lhs == "IN" or lhs.startswith("IN.") or lhs.startswith("IN["):
            flatten(re.sub(r"\[(\d+)[lLuU]+\]", r"[\1]", lhs), st.get("value"), vals)
    return vals


def trace_excerpt(trace, limit=60):
    lines = []
    for st in trace or []:
        if st.get("hidden"):
            continue
        t = st.get("stepType")
        loc = st.get("sourceLocation") or {}
        where = "%s:%s" % (os.path.basename(loc.get("file", "?")), loc.get("line", "?"))
        if t == "assignment":
            v = st.get("value") or {}
            d = v.get("data")
            if d is None:
                continue
            lines.append("  %s  %s = %s" % (where, st.get("lhs"), d))
        elif t == "function-call":
            lines.append("  %s  call %s" % (where, (st.get("function") or {}).get("displayName")))
        elif t == "failure":
            lines.append("  %s  FAILURE %s: %s" % (where, st.get("property"), st.get("reason")))
    if len(lines) > limit:
        lines = lines[:limit // 3] + ["  ... (%d steps omitted)" % (len(lines) - limit)] + lines[-2 * limit // 3:]
    return "\n".join(lines)


def slug(s):
    return re.sub(r"[^A-Za-z0-9]+", "_", s).strip("_")[:80]


# --------------------------------------------------------------------------
# native replay

def native_replay(h, replay_path, wd):
    """Compile the harness natively with sanitizers and feed it the replay file.
    Returns (reproduced: bool, text)."""
    exe = os.path.join(wd, "native")
    fl = [f for f in include_flags(h) if f != "-DVERIF_CBMC"]
    cmd = ["clang", "-g", "-O0", "-w", "-fsanitize=address,undefined", "-fno-sanitize=shift-base", "-fno-sanitize-recover=undefined",
           "-DVERIF_NATIVE"] + (["-m32"] if False else []) + fl + \
          [os.path.join(VERIF, h.src), os.path.join(VERIF, "contracts", "verif_native.c"), "-o", exe, "-lm"]
    if not os.path.exists(exe):
        rc, o, e = run(cmd, 300)
        if rc != 0:
            return False, "native build failed:\n" + (o + e)[-1500:]
    env_cmd = [exe, h.entry, replay_path]
    p = subprocess.run(env_cmd, stdout=subprocess.PIPE, stderr=subprocess.STDOUT, timeout=120,
                       env=dict(os.environ, ASAN_OPTIONS="detect_leaks=0:abort_on_error=0"))
    txt = p.stdout.decode(errors="replace")
    if p.returncode == 1 and "FAILED:" in txt:
        return True, txt[-3000:]
    if p.returncode not in (0, 3, 4) and ("AddressSanitizer" in txt or "runtime error" in txt or p.returncode < 0):
        return True, txt[-3000:]
    return False, txt[-3000:]


# --------------------------------------------------------------------------
# known findings

def load_findings():
    path = os.path.join(VERIF, "known_findings.txt")
    out = []
    if not os.path.exists(path):
        return out
    for ln in open(path):
        ln = ln.strip()
        if not ln.startswith("finding:"):
            continue
        m = re.match(r"finding:\s+property=(\S+)\s+harness=(\S+)\s+obligation=/(.*?)/\s+(?:witness=/(.*?)/\s+)?::\s*(.*)$", ln)
        if not m:
            raise ToolError("malformed line in known_findings.txt: " + ln)
        out.append({"property": m.group(1), "harness": m.group(2), "obligation": m.group(3),
                    "witness": m.group(4), "what": m.group(5)})
    return out


def match_finding(findings, pid, hname, oname, inputs):
    for f in findings:
        if f["property"] != pid or not re.fullmatch(f["harness"], hname):
            continue
        if not re.search(f["obligation"], oname):
            continue
        if f["witness"]:
            env = {}
            for k, v in inputs.items():
                key = re.sub(r"[^A-Za-z0-9_]", "_", k[3:] if k.startswith("IN.") else k)
                try:
                    env[key] = int(v, 0)
                except (ValueError, TypeError):
                    env[key] = v
            try:
                if not eval(f["witness"], {"__builtins__": {}}, env):
                    continue
            except Exception:
                continue
        return f
    return None


# --------------------------------------------------------------------------
# one harness, end to end

def run_harness(pid, h, tier, keep):
    wd = os.path.join(WORK, "build", pid, h.name)
    shutil.rmtree(wd, ignore_errors=True)
    os.makedirs(wd)
    t0 = time.time()
    rec = {"harness": h.name, "entry": h.entry, "source": h.src, "functions": h.funcs,
           "enforced_by_dfcc": h.enforce, "callee_contracts_substituted": h.replace + h.replace_calls,
           "bounded": h.bounded, "status": "undecided", "failed": [], "assumed": [],
           "obligations": 0, "discharged": 0, "note": h.note}
    try:
        gb = build(h, wd)
        v = solve(h, gb, wd)
        rec.update(backend=v["backend"], solver_s=round(v.get("solver_s") or 0, 2),
                   vccs=v.get("vccs"), vccs_remaining=v.get("vccs_remaining"), checker_cmd=v["cmd"])
        # functions that silently lost their body would make the proof vacuous
        for m in v["messages"]:
            mm = re.search(r"no body for (?:function|callee) (\S+)", m)
            if mm and mm.group(1) not in h.externals and not mm.group(1).startswith("nondet_"):
                raise ToolError("function without body: %s (not in the harness's list of externals)" % mm.group(1))
            if "ignoring forall" in m or "ignoring exists" in m:
                raise ToolError("back end ignored a quantifier: " + m)
        names = []
        rec["assumed"] = list(v.get("excluded") or [])
        for r in v["results"]:
            nm = obligation_name(r)
            if r["description"] == "undefined function should be unreachable" and r["status"] != "SUCCESS":
                raise ToolError("a function without body is reachable (DFCC): see trace of %s" % r["property"])
            mm = re.search(r"\.no-body\.(\S+)$", r["property"])
            if mm:
                if mm.group(1) in h.externals:
                    continue
                raise ToolError("function without body: %s (not in the harness's list of externals)" % mm.group(1))
            if r["status"] == "SUCCESS":
                rec["obligations"] += 1
                rec["discharged"] += 1
                names.append(nm)
            else:
                why = accepted_reason(r)
                if why:
                    rec["assumed"].append({"obligation": nm, "reason": why})
                else:
                    rec["obligations"] += 1
                    rec["failed"].append({"name": nm, "cbmc_property": r["property"],
                                          "description": r["description"],
                                          "location": r.get("sourceLocation") or {},
                                          "inputs": inputs_from_trace(r.get("trace")),
                                          "trace": trace_excerpt(r.get("trace"))})
        if rec["failed"]:
            traces = fetch_traces(h, gb, wd, v["backend"], [f["cbmc_property"] for f in rec["failed"]])
            for f in rec["failed"]:
                tr = traces.get(f["cbmc_property"])
                f["inputs"] = inputs_from_trace(tr)
                f["trace"] = trace_excerpt(tr) if tr else "(the trace run did not complete; no counterexample values available)"
        rec["sample_obligations"] = [n for n in names if not n.startswith("__CPROVER")][:12]
        rec["user_names"] = sorted({obligation_name(r) for r in v["results"]
                                    if (re.search(r"\.assertion\.\d+$", r["property"]) or re.search(r"\.(postcondition|precondition|assigns)\.\d+$", r["property"]))
                                    and not r["property"].startswith("__CPROVER")})
        rec["user_obligations"] = sum(1 for r in v["results"] if re.search(r"\.assertion\.\d+$", r["property"])
                                      and not r["property"].startswith("__CPROVER"))
        if rec["obligations"] < h.floor:
            raise ToolError("only %d obligations generated, floor is %d (vacuity guard)" % (rec["obligations"], h.floor))
        want_cover = h.cover if h.cover is not None else ("VCOVER(" in open(os.path.join(VERIF, h.src)).read())
        if want_cover and not rec["failed"]:
            n, bad = cover_pass(h, wd)
            rec["covers"] = n
            rec["covers_satisfied"] = n - len(bad)
            if bad:
                raise ToolError("reachability cover not satisfied (vacuity guard): %s" % [g.get("description") for g in bad][:5])
        rec["status"] = "failed" if rec["failed"] else "discharged"
    except ToolError as ex:
        rec["status"] = "undecided"
        rec["why"] = str(ex)
    except Exception as ex:  # defensive: a driver bug must never look like a pass
        rec["status"] = "undecided"
        rec["why"] = "driver exception: %r" % ex
    rec["wall_s"] = round(time.time() - t0, 2)
    rec["_wd"] = wd
    if not keep:
        for f in os.listdir(wd):
            if f.endswith(".gb"):
                os.unlink(os.path.join(wd, f))
    return rec


def write_replay(pid, h, fail, backend):
    d = os.path.join(WORK, "replay", pid)
    os.makedirs(d, exist_ok=True)
    path = os.path.join(d, "%s__%s.replay" % (h.name, slug(fail["name"])))
    loc = fail["location"]
    with open(path, "w") as f:
        f.write("property: %s\nharness: %s\nentry: %s\nsource: %s\n" % (pid, h.name, h.entry, h.src))
        f.write("obligation: %s\ncbmc_property: %s\ndescription: %s\n" % (fail["name"], fail["cbmc_property"], fail["description"]))
        f.write("location: %s:%s in %s\nbackend: %s\n" % (loc.get("file"), loc.get("line"), loc.get("function"), backend))
        f.write("--- inputs (counterexample) ---\n")
        for k in sorted(fail["inputs"]):
            f.write("%s=%s\n" % (k, fail["inputs"][k]))
        f.write("--- verifier trace excerpt ---\n%s\n" % fail["trace"])
    return path


# --------------------------------------------------------------------------
# property run

def scan_assumes(paths):
    out = []
    for p in paths:
        try:
            txt = open(p).read()
        except OSError:
            continue
        n = len(re.findall(r"\b(?:VASSUME|__CPROVER_assume)\s*\(", txt))
        if n:
            out.append("%s: %d assume statement(s) constraining the harness-built pre-state or a contract stub" %
                       (os.path.relpath(p, VERIF), n))
    return out


def main():
    ap = argparse.ArgumentParser()
    ap.add_argument("pid", nargs="?")
    ap.add_argument("--tier", default=os.environ.get("VERIF_TIER", "quick"), choices=["quick", "thorough"])
    ap.add_argument("--only")
    ap.add_argument("--keep", action="store_true")
    ap.add_argument("--replay")
    ap.add_argument("--list", action="store_true")
    ap.add_argument("--no-evidence", action="store_true")
    args = ap.parse_args()

    import registry
    if args.list:
        for pid, p in sorted(registry.PROPERTIES.items()):
            for h in p["harnesses"]:
                print(pid, h.name, sorted(h.tiers), h.funcs)
        return 0
    if args.replay:
        return do_replay(registry, args.replay)
    pid = args.pid
    if pid not in registry.PROPERTIES:
        print("unknown property", pid)
        return 2
    P = registry.PROPERTIES[pid]
    seed = int(os.environ.get("VERIF_SEED", "0") or 0)
    hs = [h for h in P["harnesses"] if args.tier in h.tiers]
    if args.only:
        hs = [h for h in hs if re.search(args.only, h.name)]
    if not hs:
        print("no harness selected")
        return 2
    # VERIF_SEED only perturbs scheduling order; proofs have no random component
    if seed:
        import random
        random.Random(seed).shuffle(hs)
    hs.sort(key=lambda h: -h.timeout)
    t0 = time.time()
    findings = load_findings()
    rd = os.path.join(WORK, "replay", pid)
    if not args.only:
        shutil.rmtree(rd, ignore_errors=True)
    recs = []
    with cf.ThreadPoolExecutor(max_workers=min(NCPU, P.get("jobs") or NCPU)) as ex:  # jobs: cap for memory-hungry properties
        futs = {ex.submit(run_harness, pid, h, args.tier, args.keep): h for h in hs}
        for fu in cf.as_completed(futs):
            h = futs[fu]
            r = fu.result()
            recs.append((h, r))
            say("[%s] %-40s %-10s obligations=%d discharged=%d assumed=%d %s %.1fs %s" % (
                pid, h.name, r["status"], r["obligations"], r["discharged"], len(r["assumed"]),
                r.get("backend", "-"), r["wall_s"], r.get("why", "")[:300]))
    violations = 0
    known = 0
    undecided = [r for _, r in recs if r["status"] == "undecided"]
    for h, r in recs:
        for fail in r["failed"]:
            kf = match_finding(findings, pid, h.name, fail["name"], fail["inputs"])
            path = write_replay(pid, h, fail, r.get("backend"))
            reproduced, txt = (False, "harness is not natively replayable: " + (h.note or ""))
            if h.replayable:
                try:
                    reproduced, txt = native_replay(h, path, r["_wd"])
                except Exception as ex:
                    reproduced, txt = False, "native replay error: %r" % ex
            with open(path, "a") as f:
                f.write("--- native replay against the real code (%s) ---\n%s\n" % (
                    "REPRODUCED" if reproduced else "not reproduced", txt))
            fail["replay"] = path
            fail["reproduced"] = reproduced
            if kf:
                known += 1
                fail["known_finding"] = kf["what"]
                say("KNOWN-FINDING: property=%s %s [%s / %s]" % (pid, kf["what"], h.name, fail["name"]))
            else:
                violations += 1
                say("VIOLATION property=%s replay=%s%s" % (pid, path, "" if reproduced else " no-failing-input-found"))
                say("  obligation: %s  (harness %s)" % (fail["name"], h.name))
    for r in undecided:
        say("UNDECIDED property=%s harness=%s: %s" % (pid, r["harness"], r.get("why", "")[:1000]))
    wall = time.time() - t0
    if not args.no_evidence and not args.only:
        write_evidence(pid, P, args.tier, seed, recs, wall, violations, known, findings)
    for _, r in recs:
        if not args.keep:
            shutil.rmtree(r["_wd"], ignore_errors=True)
    if violations:
        return 1
    if undecided:
        return 2
    say("[%s] tier=%s: all obligations discharged%s in %.1fs" % (
        pid, args.tier, " (known findings: %d)" % known if known else "", wall))
    return 0


def write_evidence(pid, P, tier, seed, recs, wall, violations, known, findings):
    obligations = sum(r["obligations"] for _, r in recs)
    discharged = sum(r["discharged"] for _, r in recs)
    vccs = sum((r.get("vccs") or 0) for _, r in recs)
    vrem = sum((r.get("vccs_remaining") or 0) for _, r in recs)
    funcs = sorted({f for _, r in recs for f in r["functions"]})
    samples = []
    for h, r in recs:
        for n in r.get("sample_obligations", [])[:4]:
            samples.append({"harness": h.name, "obligation": n, "status": "discharged"})
        for f in r["failed"]:
            samples.append({"harness": h.name, "obligation": f["name"], "status": "FAILED",
                            "counterexample_inputs": f["inputs"], "replay": f.get("replay"),
                            "reproduced_natively": f.get("reproduced"), "known_finding": f.get("known_finding")})
    distinct_user = {(h.entry, n) for h, r in recs for n in r.get("user_names", [])}
    assumed = sorted({"%s — %s" % (a["reason"], a["obligation"].split(":")[0]) for _, r in recs for a in r["assumed"]})
    harness_files = sorted({os.path.join(VERIF, h.src) for h, _ in recs})
    contract_files = [os.path.join(VERIF, "contracts", f) for f in sorted(os.listdir(os.path.join(VERIF, "contracts")))]
    bounded = sorted({"%s: %s" % (h.name, h.bounded) for h, _ in recs if h.bounded})
    ev = {
        "property_id": pid, "tier": tier, "seed": seed, "level": P["level"],
        "coverage": {
            "obligations": obligations, "discharged": discharged,
            "checker_cmd": (recs[0][1].get("checker_cmd") or "cbmc") if recs else "cbmc",
            "trusted_base": P.get("trusted", []) + [
                "cbmc 6.11.0 front end, symbolic execution, goto-instrument --dfcc contract instrumentation, SAT/SMT back ends",
                "LP64, two's complement, gcc shift semantics"],
            "evaluations": max(obligations, 1), "distinct_nontrivial": len(distinct_user),
            "rule": "evaluations = CBMC properties decided in this run over all harnesses (one per assertion / contract clause / generated safety check), "
                    "excluding the accepted check classes of accepted_ub.json; distinct_nontrivial = distinct (harness entry, obligation name) pairs among them that are "
                    "property-level obligations (VASSERT / contract clauses), i.e. not CBMC-generated memory-safety or unwinding checks",
            "samples": samples[:40],
            "explanation": P["explanation"],
            "exhaustive": False,
            "functions_under_contract": funcs,
            "bounded_stand_ins": bounded,
            "known_findings_reported": known,
            "harnesses": [{k: v for k, v in r.items() if k not in ("_wd", "failed", "sample_obligations", "user_names")} |
                          {"failed": [{"obligation": f["name"], "replay": f.get("replay"), "reproduced": f.get("reproduced"),
                                       "known_finding": f.get("known_finding")} for f in r["failed"]]}
                          for _, r in recs],
        },
        "assumptions": P.get("assumptions", []) + assumed + bounded + scan_assumes(harness_files + contract_files),
        "wall_s": round(wall, 2),
        "violations": violations,
    }
    if P.get("mc"):
        # model_checking level: counts of the explored universe, computed by the property's own counting function from the harnesses that were discharged in this run
        ev["coverage"].update(P["mc"](tier, [(h, r) for h, r in recs if r["status"] == "discharged"]))
    if len(ev["coverage"]["harnesses"]) > 120:
        hs_ = ev["coverage"]["harnesses"]
        keep = [x for x in hs_ if x["status"] != "discharged"] + [x for x in hs_ if x["status"] == "discharged"][:60]
        ev["coverage"]["harnesses_omitted"] = len(hs_) - len(keep)
        ev["coverage"]["harnesses_total"] = {"count": len(hs_), "discharged": sum(1 for x in hs_ if x["status"] == "discharged"),
                                             "solver_s": round(sum(x.get("solver_s") or 0 for x in hs_), 1), "wall_s_sum": round(sum(x.get("wall_s") or 0 for x in hs_), 1)}
        ev["coverage"]["harnesses"] = keep
    os.makedirs(os.path.join(VERIF, "evidence"), exist_ok=True)
    with open(os.path.join(VERIF, "evidence", pid + ".json"), "w") as f:
        json.dump(ev, f, indent=1)
        f.write("\n")


def do_replay(registry, path):
    meta = {}
    for ln in open(path):
        m = re.match(r"(property|harness|entry): (.*)$", ln.strip())
        if m:
            meta[m.group(1)] = m.group(2)
    P = registry.PROPERTIES.get(meta.get("property"))
    hs = [h for h in (P or {}).get("harnesses", []) if h.name == meta.get("harness")]
    if not hs:
        print("cannot find harness for", path)
        return 2
    h = hs[0]
    wd = os.path.join(WORK, "build", "replay")
    shutil.rmtree(wd, ignore_errors=True)
    os.makedirs(wd)
    if not h.replayable:
        print("harness %s has no native replay (%s); the file carries the verifier's output" % (h.name, h.note))
        print(open(path).read())
        return 0
    ok, txt = native_replay(h, path, wd)
    print(txt)
    print("REPRODUCED" if ok else "not reproduced")
    shutil.rmtree(wd, ignore_errors=True)
    return 1 if ok else 0


if __name__ == "__main__":
    sys.exit(main())
