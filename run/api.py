"""Shared registration API: properties (harness lists), self-test mutants and manifest claims.
Per-property modules live in run/props/<ID>.py and are loaded by load_props()."""
import glob, importlib.util, os
from check import Harness as H

PROPERTIES = {}
MUTANTS = []
CLAIMS = {}
NOT_APPLICABLE = {}
SHARED = {}   # helpers exported by one property module for another (C01 -> C03, C06)

def prop(pid, level, explanation, harnesses, trusted=(), assumptions=(), jobs=None, mc=None):
    PROPERTIES[pid] = {"level": level, "explanation": explanation, "harnesses": harnesses,
                       "trusted": list(trusted), "assumptions": list(assumptions), "jobs": jobs, "mc": mc}

def mut(pid, name, edits, expect, only=None, **kw):
    MUTANTS.append(dict(pid=pid, name=name, edits=edits, expect=expect, only=only, **kw))

def claim(pid, category, technique, text, note, design_ref):
    CLAIMS[pid] = {"category": category, "technique": technique, "text": text, "note": note, "design_ref": design_ref}

_loaded = False
def load_props():
    global _loaded
    if _loaded:
        return
    _loaded = True
    d = os.path.join(os.path.dirname(os.path.abspath(__file__)), "props")
    for f in sorted(glob.glob(os.path.join(d, "C*.py"))):
        spec = importlib.util.spec_from_file_location("props_" + os.path.basename(f)[:-3], f)
        m = importlib.util.module_from_spec(spec)
        spec.loader.exec_module(m)
