"""Registry of properties and their harnesses (see DESIGN.md section 5)."""
from check import Harness as H

PROPERTIES = {}

def prop(pid, level, explanation, harnesses, trusted=(), assumptions=()):
    PROPERTIES[pid] = {"level": level, "explanation": explanation, "harnesses": harnesses,
                       "trusted": list(trusted), "assumptions": list(assumptions)}

# ---------------------------------------------------------------------------- C16
B = "harness/C16_bitops.c"
prop("C16", "proof",
     "Full-domain contracts (DESIGN P1) on bitcnt/clz/ctz/ilog2 enforced by goto-instrument --dfcc against CBMC's "
     "bit-vector primitives, plus an independent plain-C bit-loop oracle asserted in the harness; clz/ctz are verified "
     "modularly against bitcnt's contract, ilog2 against clz's. The constexpr macros are verified over all 2^64 run-time "
     "values; their compile-time value is the same expression (C constant folding is trusted, three _Static_asserts sample it).",
     [
      H("bitcnt", B, "h_bitcnt", ["bitcnt"], enforce=["bitcnt"], unwind=65, timeout=120),
      H("clz", B, "h_clz", ["clz"], enforce=["clz"], replace=["bitcnt"], unwind=65, timeout=120),
      H("ctz", B, "h_ctz", ["ctz"], enforce=["ctz"], replace=["bitcnt"], unwind=65, timeout=120),
      H("ilog2", B, "h_ilog2", ["ilog2"], enforce=["ilog2"], replace=["clz"], unwind=65, timeout=120),
      H("ctz_field", B, "h_ctz_field", ["ctz"], replace=["ctz"], unwind=65, timeout=120),
      H("const_pop", B, "h_const_pop", ["const_pop (macro)"], unwind=65, timeout=300),
      H("const_lssb", B, "h_const_lssb", ["const_lssb (macro)"], unwind=65, timeout=300),
     ],
     trusted=["compiler constant folding of the constexpr macros equals their run-time evaluation"],
     assumptions=["the bit loops of the harness oracle have constant bounds and are unwound completely (unwinding assertions on)"])
