"""Registry of properties and their harnesses (see DESIGN.md section 5)."""
from api import H, prop, PROPERTIES, load_props

# ---------------------------------------------------------------------------- C16
B = "harness/C16_bitops.c"
prop("C16", "proof",
     "Full-domain contracts (DESIGN P1) on bitcnt/clz/ctz/ilog2 enforced by goto-instrument --dfcc against CBMC's "
     "bit-vector primitives, plus an independent plain-C bit-loop oracle asserted in the harness; clz/ctz are verified "
     "modularly against bitcnt's contract, ilog2 against clz's. The constexpr macros are verified over all 2^64 run-time "
     "values; their compile-time value is the same expression (C constant folding is trusted, eight constant arguments sample it).",
     [
      H("bitcnt", B, "h_bitcnt", ["bitcnt"], enforce=["bitcnt"], unwind=65, timeout=120),
      H("clz", B, "h_clz", ["clz"], enforce=["clz"], replace=["bitcnt"], unwind=65, timeout=120),
      H("ctz", B, "h_ctz", ["ctz"], enforce=["ctz"], replace=["bitcnt"], unwind=65, timeout=120),
      H("ilog2", B, "h_ilog2", ["ilog2"], enforce=["ilog2"], replace=["clz"], unwind=65, timeout=120),
      H("ctz_field", B, "h_ctz_field", ["ctz"], replace=["ctz"], unwind=65, timeout=120),
      H("const_pop", B, "h_const_pop", ["const_pop (macro)"], unwind=65, timeout=300),
      H("const_lssb", B, "h_const_lssb", ["const_lssb (macro)"], unwind=65, timeout=300),
      H("const_folded", B, "h_const_folded", ["const_pop (macro)", "const_lssb (macro)"], timeout=60),
     ],
     trusted=["compiler constant folding of the constexpr macros equals their run-time evaluation"],
     assumptions=["the bit loops of the harness oracle have constant bounds and are unwound completely (unwinding assertions on)"])

# ---------------------------------------------------------------------------- C17
R = "harness/C17_rand.c"
def _rand_parts(bits, tiers, euclid=False, timeout=900):
    return [H("rand31_r%s_part%02d_of_%d" % ("_euclid" if euclid else "", k, 1 << bits), R, "h_rand31", ["rand31_r"],
              enforce=["rand31_r"], defs=["-DPARTBITS=%d" % bits, "-DPART=%d" % k] + (["-DEUCLID"] if euclid else []),
              timeout=timeout, tiers=tiers, cover=(k == 0),
              note="states with bits 16..%d equal to %d" % (15 + bits, k))
            for k in range(1 << bits)]
prop("C17", "proof",
     "Contract on the real rand31_r (DESIGN P1): for every state 1..2^31-2 the result is (16807*s) mod (2^31-1) in 64-bit arithmetic, "
     "is stored as the new state and lies in 1..2^31-2. Enforced by goto-instrument --dfcc; the domain is split into 16 (quick) / 64 (thorough) "
     "partitions on bits 16.. of the state, all of which are run, so the union is the full domain. Thorough adds the Euclidean formulation "
     "16807*s == q*M + r as an independent statement of the same fact.",
     _rand_parts(4, ("quick",)) + _rand_parts(6, ("thorough",)) + _rand_parts(4, ("thorough",), euclid=True, timeout=1800),
     trusted=["full period 2^31-2 follows from 16807 being a primitive root modulo the prime 2^31-1 (textbook fact, not machine-checked)"],
     assumptions=["CaDiCaL is the only back end that discharges the multiplier equivalence in reasonable time"])

# ---------------------------------------------------------------------------- C19
RO = "harness/C19_rotenc.c"
prop("C19", "proof",
     "Step contract with a ghost latched position (DESIGN P1/P5): from every decoder state satisfying the invariant (arbitrary 16-bit position, "
     "last state, latched count) and every next 2-bit state, rotenc_decode changes the position by the statement's delta table, and "
     "rotenc_count / rotenc_count14 equal the latched position modulo 2^8 / 2^14. The invariant is re-established, so the result holds for "
     "state sequences of any length by induction; ROTENC_VAR_INIT satisfies it. Bounce cancellation and the one-click bound are finite lemmas over the same contract.",
     [
      H("rotenc_decode", RO, "h_decode", ["rotenc_decode", "rotenc_count", "rotenc_count14"], enforce=["rotenc_decode"], timeout=120),
      H("rotenc_bounce", RO, "h_bounce", ["rotenc_decode"], timeout=120),
      H("rotenc_one_click", RO, "h_within_one_click", ["rotenc_count14"], timeout=120),
      H("rotenc_init", RO, "h_init", ["ROTENC_VAR_INIT"], timeout=60),
     ],
     assumptions=["ghost variable g_latched is updated by the harness when a decode step presents the detent state 0 (definition of 'latched' taken from the statement)",
                  "the one-click bound is stated for single-bit motion only (live position within 3 quarter steps of the latched one); invalid two-bit jumps can move the live position arbitrarily far without passing the detent"])

# ---------------------------------------------------------------------------- C12
PK = "harness/C12_pack.c"
_pack_items = ["pack_s16le", "pack_u16be", "pack_u16le", "pack_s32le", "pack_u32le",
               "unpack_char", "unpack_s8", "unpack_u8", "unpack_u16le", "unpack_u32le", "pack_bytes", "unpack_bytes"]
_PK_ALL = ["rf_" + x for x in _pack_items]
prop("C12", "proof",
     "Contract on every implemented function of pack.c (DESIGN P2): buffer of symbolic size 0..2^31-1 in an exactly-sized object, cursor anywhere "
     "including beyond the end, all argument values. Per n-byte item: cursor advances by n always; if it fits exactly its bytes are written in the "
     "named byte order / the value is assembled from them, otherwise nothing is transferred (unpack reads 0, output arrays zero-filled); the frame "
     "(assigns clause checked by DFCC + one watched byte) shows nothing else changes; every access is inside the object (CBMC pointer checks). "
     "Stickiness of the overflow and the pack/unpack round trip are lemmas proved from the contracts alone (callees substituted by contract). "
     "Sequences of any length follow by induction: the cursor never decreases.",
     [H(x, PK, "h_" + x, ["rf_" + x, "rf_pack_consumed", "rf_pack_remaining"], enforce=["rf_" + x], unwind=9, timeout=300, solvers=("cadical", "minisat")) for x in _pack_items] +
     [H("pack_bytes_empty", PK, "h_pack_bytes_empty", ["rf_pack_bytes"], enforce=["rf_pack_bytes"], unwind=9, timeout=300, solvers=("cadical", "minisat")),
      H("pack_init", PK, "h_pack_init", ["rf_pack_init"], enforce=["rf_pack_init"], unwind=9, timeout=300, solvers=("cadical", "minisat")),
      H("pack_consumed", PK, "h_pack_u16le", ["rf_pack_consumed"], enforce=["rf_pack_consumed"], unwind=9, timeout=300, solvers=("cadical", "minisat"), cover=False),
      H("pack_remaining", PK, "h_pack_u16le", ["rf_pack_remaining"], enforce=["rf_pack_remaining"], unwind=9, timeout=300, solvers=("cadical", "minisat"), cover=False),
      H("lemma_sticky", PK, "h_sticky", ["rf_pack_u16le", "rf_unpack_u32le", "rf_pack_u32le"],
        replace=["rf_pack_u16le", "rf_unpack_u32le", "rf_pack_u32le"], unwind=9, timeout=300, solvers=("cadical", "minisat")),
      H("lemma_roundtrip", PK, "h_roundtrip", ["rf_pack_u16le", "rf_pack_u32le", "rf_pack_s16le", "rf_pack_s32le", "rf_unpack_u16le", "rf_unpack_u32le"],
        replace=["rf_pack_u16le", "rf_pack_u32le", "rf_pack_s16le", "rf_pack_s32le", "rf_unpack_u16le", "rf_unpack_u32le"], unwind=9, timeout=300, solvers=("cadical", "minisat"))],
     assumptions=["scope of the record: total requested bytes below 2^31, so the cursor offset stays below 2^31",
                  "CBMC models of malloc, memcpy, memset"])

# ---------------------------------------------------------------------------- C14
WD = "harness/C14_wavdecode.c"
_PK_ENFORCERS = lambda tiers=("quick", "thorough"): [H("callee_" + x, PK, "h_" + x, ["rf_" + x], enforce=["rf_" + x], unwind=9, timeout=300,
                                                     solvers=("cadical", "minisat"), cover=False, tiers=tiers) for x in
                                                   ["unpack_bytes", "unpack_u16le", "unpack_u32le", "pack_init"]]
prop("C14", "proof",
     "Contract on rf_wavheader_decode over a byte string of symbolic length < 2^31 in an exactly-sized object with symbolic content (DESIGN P2): "
     "every read is inside the object (CBMC dereference checks on the real pack.c/wavheader.c code); the result is negative, or beyond the supplied "
     "length, or exactly the number of bytes the field walk consumes (recomputed in 64-bit arithmetic from the decoded fields) and at least "
     "RF_WAVHEADER_MIN_SIZE. Truncation lemma: decoding any proper prefix of an accepted header is never a success. "
     "validate/get_format/tostring are run on a structure with arbitrary contents; every CBMC check (division by zero included) is an obligation.",
     [
      H("decode", WD, "h_decode", ["rf_wavheader_decode"], enforce=["rf_wavheader_decode"], unwind=97, timeout=600, solvers=("cadical", "minisat"),
        externals=["strdup_printf"]),
      H("decode_truncated", WD, "h_truncate", ["rf_wavheader_decode"], unwind=97, timeout=900, solvers=("cadical", "minisat")),
      H("helpers", WD, "h_helpers", ["rf_wavheader_validate", "rf_wavheader_get_format", "rf_wavheader_tostring"], unwind=97, timeout=300,
        solvers=("cadical", "minisat")),
      H("validate", WD, "h_helpers", ["rf_wavheader_validate"], enforce=["rf_wavheader_validate"], unwind=97, timeout=300, cover=False),
      H("get_format", WD, "h_get_format", ["rf_wavheader_get_format"], enforce=["rf_wavheader_get_format"], unwind=97, timeout=300, cover=False),
     ],
     trusted=["strdup_printf (librfn/string.c: vsnprintf + malloc) is external and stubbed; CBMC models of malloc/memcpy/memset/memcmp"],
     assumptions=["the callees of pack.c are inlined in the decode harnesses (their own contracts are enforced under C12)"])

# ---------------------------------------------------------------------------- C13
WV = "harness/C13_wavheader.c"
prop("C13", "proof",
     "Contracts on rf_wavheader_init / set_num_frames / encode / decode (DESIGN 5.C13), split so that no query mixes the products with the codec: "
     "init on a structure with arbitrary prior contents establishes the init shape (no stale field) and the field identities; set_num_frames from any "
     "init-shaped header with consistent sizes establishes data size and RIFF size (re-establishing its own precondition, so repeated calls are covered); "
     "any init-shaped header with arbitrary numeric fields validates and round-trips through the real encode/decode field-wise with equal lengths; "
     "any byte string (symbolic length < 2^31) that decodes successfully is reproduced byte-for-byte by re-encoding, proved for one arbitrary watched byte index.",
     [
     ] + [
      H("init_" + nm, WV, "h_init", ["rf_wavheader_init", "rf_wavheader_validate", "rf_wavheader_get_format"], enforce=["rf_wavheader_init"],
        defs=["-DFIXFMT=%d" % k], solvers=("cadical",), timeout=900, unwind=97, note="format " + nm) for k, nm in enumerate(["S16LE", "S32LE", "FLOAT"])
     ] + [
      H("set_num_frames", WV, "h_set_num_frames", ["rf_wavheader_set_num_frames"], enforce=["rf_wavheader_set_num_frames"],
        solvers=("cadical", "cvc5", "z3"), timeout=600, unwind=97),
      H("roundtrip", WV, "h_roundtrip", ["rf_wavheader_encode", "rf_wavheader_decode", "rf_wavheader_validate"],
        solvers=("cadical", "minisat"), timeout=600, unwind=97),
      H("encode", WV, "h_roundtrip", ["rf_wavheader_encode"], enforce=["rf_wavheader_encode"], solvers=("cadical", "minisat"), timeout=600, unwind=97, cover=False),
      H("decode_first", WV, "h_decode_first", ["rf_wavheader_decode", "rf_wavheader_encode"], solvers=("cadical", "minisat"), timeout=900, unwind=97),
     ],
     trusted=["CBMC models of malloc/memcpy/memset/memcmp"],
     assumptions=["'within 32-bit size limits' is read as: every size field of the header can hold its value (block_align 16 bits, byte_rate / data size / RIFF size 32 bits)",
                  "pack.c callees are inlined in these harnesses (their contracts are enforced under C12)"])

# ---------------------------------------------------------------------------- C20
ML = "harness/C20_mlog.c"
_DUMP_QUICK = (0, 1, 2, 15, 16, 17, 63, 64, 127, 128, 129, 200, 253, 254, 255)
prop("C20", "proof",
     "Contracts on vmlog / vmlog_nice / mlog_clear / get_line (attached by redeclaration after the definition, enforced by goto-instrument --dfcc) and "
     "harness-level postconditions for the variadic wrappers and the readers, against a ghost 64-bit message count and one prophecy-chosen watched message. "
     "Every operation starts from an arbitrary state satisfying the counter invariant (head symbolic over its whole range, fold after 2^31 included) and re-establishes it, "
     "so histories of any length are covered by induction from the static initial state.",
     [
      H("vmlog", ML, "h_mlog", ["vmlog", "mlog"], enforce=["vmlog"], timeout=600, solvers=("z3", "cvc5", "cadical")),
      H("vmlog_nice", ML, "h_mlog_nice", ["vmlog_nice", "mlog_nice", "vmlog"], enforce=["vmlog_nice"], timeout=600, solvers=("z3", "cvc5", "cadical")),
      H("mlog_clear", ML, "h_clear", ["mlog_clear", "get_line", "mlog_get_line"], timeout=300, solvers=("z3", "cvc5", "cadical")),
      H("mlog_clear_contract", ML, "h_clear", ["mlog_clear"], enforce=["mlog_clear"], timeout=300, solvers=("z3", "cvc5", "cadical")),
      H("initial", ML, "h_initial", ["mlog_get_line"], timeout=300, solvers=("z3", "cvc5", "cadical")),
      H("get_line", ML, "h_get_line", ["get_line"], enforce=["get_line"], timeout=300, solvers=("z3", "cvc5", "cadical")),
      H("mlog_get_line", ML, "h_mlog_get_line", ["mlog_get_line"], replace_calls=["get_line:get_line_contract"], timeout=900, solvers=("z3", "cvc5", "cadical")),
     ] + [
      H("mlog_dump_line%03d" % k, ML, "h_mlog_dump", ["mlog_dump"], replace_calls=["get_line:get_line_contract_dump"], enforce=["mlog_dump"],
        defs=["-DKFIX=%d" % k], unwind=258, timeout=900, solvers=("z3", "cadical"), cover=False,
        tiers=(("quick", "thorough") if k in _DUMP_QUICK else ("thorough",)), note="watched line index k = %d" % k)
      for k in range(256)
     ],
     trusted=["formatting is external: strdup_printf / fprintf are replaced (by macro, at the call sites of mlog.c) with stubs that capture the format pointer and the three arguments",
              "CBMC's va_list model"],
     assumptions=["ghost message count is maintained by the harness (+1 per recorded message, 0 at clear)",
                  "mlog_dump: one query per watched line index k; the quick tier runs 15 of the 256 values (partial), the thorough tier all 256 (complete)"])

# properties registered by per-property modules (run/props/<ID>.py)
load_props()
