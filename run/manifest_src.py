"""Source of MANIFEST.json: per-property claims.  Edit here, then run run/gen_manifest.py."""

HOOKS = {
    "guard": "LIBRFN_VERIF",
    "enable": "no source hook is needed: contracts are attached to the real functions by prior declaration in harnesses that #include the /repo sources; "
              "the guard name is reserved (-DLIBRFN_VERIF) should a loop-contract macro ever be required",
    "baseline_off_cmd": "make -C /repo check",
    "source_commits": [],
    "add_only": True,
}

NOTES = ("All checks: python3 run/check.py <id> --tier quick|thorough. Exit 0 = all obligations discharged; exit 1 + VIOLATION line = a contract obligation "
         "that fails on the current /repo tree; exit 2 = undecided (time-out / tool error / vacuity guard), never reported as a violation. "
         "Known findings: /verif/known_findings.txt. Self-test mutants: run/selftest.py.")

import registry  # loads run/props/*.py, which may register claims too
from api import claim, CLAIMS, NOT_APPLICABLE

claim("C16", "proof",
      "CBMC function contracts (goto-instrument --dfcc) on the real bitops.c, full 32/64-bit input domain, loop-free",
      "Every one of the 2^32 arguments of bitcnt/clz/ctz/ilog2 and every 64-bit argument of const_pop/const_lssb is covered by one symbolic query per function; "
      "the postcondition is the mathematical definition (CBMC bit-vector primitive and an independent bit-loop oracle). clz/ctz/ilog2 are verified against their callee's contract.",
      "Trusted: CBMC and its SAT back end; compiler constant folding for the compile-time use of the macros (sampled by _Static_assert only).",
      "DESIGN.md 5.C16")

claim("C17", "proof",
      "CBMC function contract (goto-instrument --dfcc) on the real rand31_r against 64-bit reference arithmetic; full state domain split into 16/64 partitions, all run",
      "All 2^31-2 states are covered symbolically: the union of the partitions is the whole domain and every partition is a complete proof of the postcondition "
      "result == 16807*s mod (2^31-1), new state == result, result in 1..2^31-2.",
      "Trusted: CBMC, CaDiCaL. Full period is the textbook consequence (primitive root), stated not machine-checked.",
      "DESIGN.md 5.C17")
claim("C19", "proof",
      "CBMC step contract with ghost latched position on the real rotenc_decode / rotenc_count / rotenc_count14, every decoder state, induction over the sequence",
      "From every state satisfying the invariant and for every next 2-bit input the delta table of the statement and the two readings' relation to the latched position are proved; "
      "the invariant is re-established, so sequences of any length are covered by induction from ROTENC_VAR_INIT.",
      "Ghost 'latched position' is maintained by the harness at detent visits (definition from the statement). One-click bound only for single-bit motion.",
      "DESIGN.md 5.C19")

claim("C12", "proof",
      "CBMC function contracts (goto-instrument --dfcc, assigns-clause frame checking) on every implemented function of the real pack.c over a harness-built cursor of symbolic size and position; stickiness and round trip as lemmas over the contracts",
      "Every buffer size 0..2^31-1, every cursor position including past the end, every argument value and (for the byte-array items) every length below 2^31 is covered symbolically; "
      "the postcondition is the statement's per-item contract and all CBMC memory-safety checks are obligations. Sequences of any length follow by induction over the per-item contract.",
      "Accepted check classes (pointer comparison / subtraction with the cursor beyond the object, shift into the sign bit) are excluded and listed in accepted_ub.json. Trusted: CBMC models of malloc/memcpy/memset.",
      "DESIGN.md 5.C12")

claim("C14", "proof",
      "CBMC function contract (goto-instrument --dfcc) on the real rf_wavheader_decode over a symbolic byte string of symbolic length in an exactly-sized object; truncation lemma; helper functions on arbitrary structures",
      "Every byte string of every length below 2^31 is covered by one symbolic query: all reads inside the object, result negative / beyond the input / exactly the walked length >= 44; "
      "no proper prefix of an accepted header decodes successfully; validate/get_format/tostring raise no CBMC check on any structure contents.",
      "pack.c callees are inlined here (their contracts are enforced under C12). strdup_printf is external (stubbed). Accepted check classes as C12.",
      "DESIGN.md 5.C14")

claim("C13", "proof",
      "CBMC function contracts (goto-instrument --dfcc) on the real rf_wavheader_init / set_num_frames / encode; codec round trip and decode-first reproduction as harness-level postconditions over the real encode/decode",
      "All (format, channels, rate, frames) tuples within the field widths and all prior structure contents are covered symbolically; the round trip holds for every header of init shape with arbitrary numeric fields; "
      "the decode-first direction holds for every byte string of every length below 2^31 (content proved at one arbitrary watched index).",
      "32-bit limit for rate*channels*width read as INT_MAX (API computes in int). pack.c callees inlined (contracts enforced under C12). Accepted check classes as C12.",
      "DESIGN.md 5.C13")

claim("C20", "proof",
      "CBMC function contracts (goto-instrument --dfcc) on vmlog / vmlog_nice / mlog_clear / get_line of the real mlog.c with a ghost 64-bit message count and a prophecy-chosen watched message; readers verified against get_line's contract (stub via --replace-calls); induction over operations",
      "The head counter is symbolic over its whole range, so the fold after 2^31 messages and every residue modulo 256 are ordinary cases; each operation re-establishes the invariant, giving histories of any length by induction from the static initial state. "
      "mlog_dump is decided per watched line index: all 256 in the thorough tier, 15 in the quick tier (partial there).",
      "Formatting (strdup_printf/fprintf) is external and captured by stubs. CBMC's va_list model is trusted. SMT back ends (z3/cvc5) decide the symbolic-slot queries.",
      "DESIGN.md 5.C20")
