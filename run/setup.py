#!/usr/bin/env python3
"""Offline setup: verify that the tools the checks need are present.  Nothing is downloaded or built."""
import shutil, subprocess, sys, os
need = ["cbmc", "goto-cc", "goto-instrument", "clang", "cvc5", "z3", "python3"]
missing = [t for t in need if not shutil.which(t)]
if missing:
    print("missing tools:", missing)
    sys.exit(1)
v = subprocess.run(["cbmc", "--version"], capture_output=True, text=True).stdout.strip()
print("cbmc", v)
os.makedirs(os.path.join(os.path.dirname(os.path.dirname(os.path.abspath(__file__))), "evidence"), exist_ok=True)
sys.exit(0)
