#!/usr/bin/env python3
"""
selftest.py - tests the machinery itself (DESIGN 3.2): applies realistic mutants to a
scratch copy of /repo (outside /repo and /verif), confirms `make check` still passes,
and confirms the property's check turns red on the expected obligation.

  selftest.py [--property C16] [--name REGEX] [--skip-tests] [--tier quick]

Also applies the seeded changes under /verif/seeded/<id>/patch.diff (--seeded).
Exit 0 iff every selected mutant is caught (exit 1 of check.py + matching obligation).
"""
import argparse, json, os, re, shutil, subprocess, sys, tempfile, time
VERIF = os.path.dirname(os.path.dirname(os.path.abspath(__file__)))
sys.path.insert(0, os.path.join(VERIF, "run"))
from mutants import MUTANTS

def sh(cmd, **kw):
    return subprocess.run(cmd, shell=isinstance(cmd, str), stdout=subprocess.PIPE, stderr=subprocess.STDOUT, text=True, **kw)

def main():
    ap = argparse.ArgumentParser()
    ap.add_argument("--property")
    ap.add_argument("--name")
    ap.add_argument("--skip-tests", action="store_true")
    ap.add_argument("--tier", default="quick")
    ap.add_argument("--seeded", action="store_true")
    args = ap.parse_args()
    muts = list(MUTANTS)
    if args.seeded:
        muts = []
        sd = os.path.join(VERIF, "seeded")
        for d in sorted(os.listdir(sd)):
            mp = os.path.join(sd, d, "meta.json")
            if os.path.exists(mp):
                meta = json.load(open(mp))
                muts.append({"pid": meta["property"], "name": "seeded/" + d, "patch": os.path.join(sd, d, "patch.diff"),
                             "expect": meta.get("caught_by_obligation", "."), "only": meta.get("only")})
    if args.property:
        muts = [m for m in muts if m["pid"] == args.property]
    if args.name:
        muts = [m for m in muts if re.search(args.name, m["name"])]
    scratch = tempfile.mkdtemp(prefix="librfn_selftest_")
    results = []
    try:
        for m in muts:
            t0 = time.time()
            repo = os.path.join(scratch, "repo")
            shutil.rmtree(repo, ignore_errors=True)
            sh(["rsync", "-a", "--exclude", ".git", "/repo/", repo + "/"])
            if "patch" in m:
                r = sh(["patch", "-p1", "-d", repo, "-i", m["patch"]])
                if r.returncode != 0:
                    results.append((m, "INVALID (patch does not apply)", r.stdout[-300:])); continue
            else:
                ok = True
                for (fn, old, new) in m["edits"]:
                    path = os.path.join(repo, fn)
                    txt = open(path).read()
                    if txt.count(old) != 1:
                        results.append((m, "INVALID (anchor text occurs %d times in %s)" % (txt.count(old), fn), "")); ok = False; break
                    open(path, "w").write(txt.replace(old, new))
                if not ok:
                    continue
            tests = "skipped"
            if not args.skip_tests and not m.get("skip_tests"):
                r = sh("make -C %s check 2>&1 | grep -E '^# (PASS|FAIL|ERROR):'" % repo)
                tests = " ".join(r.stdout.split())
                if "# FAIL: 0" not in tests or "# ERROR: 0" not in tests or "# PASS: 17" not in tests:
                    results.append((m, "INVALID (unit tests do not pass: %s)" % tests, "")); continue
            env = dict(os.environ, VERIF_REPO=repo, VERIF_WORK=os.path.join(scratch, "work"))
            cmd = [sys.executable, os.path.join(VERIF, "run", "check.py"), m["pid"], "--tier", args.tier, "--no-evidence"]
            if m.get("only"):
                cmd += ["--only", m["only"]]
            r = sh(cmd, env=env)
            viol = re.findall(r"VIOLATION property=\S+ replay=\S+( no-failing-input-found)?\n\s+obligation: (.*)", r.stdout)
            hit = [v for v in viol if re.search(m["expect"], v[1])]
            if m.get("expect_pass"):
                # a change under which the property still holds: the check must stay quiet (no false alarm)
                status = "CAUGHT" if r.returncode == 0 else ("FALSE-ALARM" if r.returncode == 1 else "UNDECIDED")
                if status == "CAUGHT":
                    viol = [("", "(no alarm, as required)")]
            elif r.returncode == 1 and hit:
                status = "CAUGHT"
            elif r.returncode == 1:
                status = "CAUGHT-OTHER-OBLIGATION"
            elif r.returncode == 2:
                status = "UNDECIDED"
            else:
                status = "MISSED"
            detail = "; ".join("%s%s" % (v[1][:90], " [no input]" if v[0] else " [replayed]") for v in viol[:4])
            results.append((m, status, "tests: %s; %s; %.0fs" % (tests, detail or r.stdout[-300:], time.time() - t0)))
            print("%-8s %-45s %-24s %s" % (m["pid"], m["name"], status, results[-1][2]), flush=True)
    finally:
        shutil.rmtree(scratch, ignore_errors=True)
    bad = [r for r in results if r[1] not in ("CAUGHT",)]
    for m, st, d in results:
        if st.startswith("INVALID"):
            print("%-8s %-45s %s %s" % (m["pid"], m["name"], st, d))
    print("%d mutants, %d caught on the expected obligation" % (len(results), len(results) - len(bad)))
    return 1 if bad else 0

if __name__ == "__main__":
    sys.exit(main())
