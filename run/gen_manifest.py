#!/usr/bin/env python3
"""Regenerate MANIFEST.json from run/manifest_src.py (kept valid at all times)."""
import json, os, sys
sys.path.insert(0, os.path.dirname(os.path.abspath(__file__)))
import manifest_src as M
VERIF = os.path.dirname(os.path.dirname(os.path.abspath(__file__)))
props = [json.loads(l)["id"] for l in open(os.path.join(VERIF, "properties.jsonl"))]
checks = []
for pid in props:
    c = M.CLAIMS.get(pid)
    if not c:
        continue
    checks.append({
        "property_id": pid,
        "quick_cmd": "python3 run/check.py %s --tier quick" % pid,
        "thorough_cmd": "python3 run/check.py %s --tier thorough" % pid,
        "evidence_file": "/verif/evidence/%s.json" % pid,
        "replay_cmd_template": "python3 run/check.py --replay {path}",
        "engine": "cbmc-contracts",
        "level_claimed": {"category": c["category"], "text": c["text"], "design_ref": c["design_ref"]},
        "level_note": c["note"],
        "technique": c["technique"],
    })
na = [{"property_id": pid, "reason": M.NOT_APPLICABLE.get(pid, "check not built yet in this session; see DESIGN.md section 5 for the planned route")}
      for pid in props if pid not in M.CLAIMS]
man = {
    "version": 1,
    "setup_cmd": "python3 run/setup.py",
    "hooks": M.HOOKS,
    "engines": [{"name": "cbmc-contracts", "path": "run/check.py", "serves_properties": [c["property_id"] for c in checks],
                 "kind_free_text": "contract-based deductive verification: contracts in /verif/contracts attached to the real /repo functions by prior declaration, "
                                   "enforced per function with goto-instrument --dfcc (or, for shape contracts, enforcing harness + contract stub via --replace-calls), discharged by cbmc 6.11 (CaDiCaL / cvc5 / z3 portfolio)"}],
    "checks": checks,
    "notes": M.NOTES,
    "not_applicable": na,
}
with open(os.path.join(VERIF, "MANIFEST.json"), "w") as f:
    json.dump(man, f, indent=1)
    f.write("\n")
print("MANIFEST.json: %d checks, %d not_applicable" % (len(checks), len(na)))
