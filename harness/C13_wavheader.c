/*
 * C13 - WAV headers round-trip and correctly describe the file they head.
 * Real code: /repo/librfn/wavheader.c on top of /repo/librfn/pack.c.
 *
 * Split as in DESIGN 5.C13:
 *   h_init            rf_wavheader_init on a structure with ARBITRARY prior contents: shape + field identities
 *   h_set_num_frames  from any header of init shape with consistent sizes: data size, RIFF size
 *   h_roundtrip       any header of init shape (all numeric fields arbitrary): validate, encode, decode, identical
 *   h_decode_first    any byte string that decodes successfully: re-encoding reproduces the bytes and the length
 */
#include <stdlib.h>
#include <string.h>
#include <errno.h>
#include "pack_contract.h"
#include "wav_contract.h"
#ifndef VERIF_NATIVE
char *strdup_printf(const char *fmt, ...);
char *strdup_printf(const char *fmt, ...) { (void)fmt; return NULL; }
#else
#include "librfn/string.c"
void rf_internal_out_of_memory(void) { abort(); }
void *xmalloc(size_t sz) { void *p = malloc(sz); if (!p) abort(); return p; }
#endif
#include "librfn/pack.c"
#include "librfn/wavheader.c"

#define NBYTES 96
#define IN_FIELDS(S, A)                                                                          \
	A(uint8_t, raw, sizeof(rf_wavheader_t)) S(int32_t, rate) S(int32_t, ch) S(int32_t, fmt)   \
	S(uint32_t, frames) S(uint32_t, frames2) S(uint32_t, sz) A(uint8_t, bytes, NBYTES) S(uint32_t, j)
VERIF_INPUTS(IN_FIELDS)

static rf_wavheader_t WH;

static bool same_header(const rf_wavheader_t *a, const rf_wavheader_t *b)
{
	return 0 == memcmp(a->chunk_id, b->chunk_id, 4) && a->chunk_size == b->chunk_size && 0 == memcmp(a->format, b->format, 4) &&
	       0 == memcmp(a->fmt_chunk_id, b->fmt_chunk_id, 4) && a->fmt_chunk_size == b->fmt_chunk_size &&
	       a->audio_format == b->audio_format && a->num_channels == b->num_channels && a->sample_rate == b->sample_rate &&
	       a->byte_rate == b->byte_rate && a->block_align == b->block_align && a->bits_per_sample == b->bits_per_sample &&
	       a->cb_size == b->cb_size && a->valid_bits_per_sample == b->valid_bits_per_sample && a->channel_mask == b->channel_mask &&
	       0 == memcmp(a->sub_format, b->sub_format, 16) && 0 == memcmp(a->fact_chunk_id, b->fact_chunk_id, 4) &&
	       a->fact_chunk_size == b->fact_chunk_size && a->sample_length == b->sample_length &&
	       0 == memcmp(a->data_chunk_id, b->data_chunk_id, 4) && a->data_chunk_size == b->data_chunk_size;
}

void h_init(void)
{
	VERIF_LOAD_INPUTS();
	memcpy(&WH, IN.raw, sizeof(WH)); /* whatever the structure held beforehand */
	rf_wavheader_format_t f = (rf_wavheader_format_t)IN.fmt;
#if defined(FIXFMT) && !defined(VERIF_NATIVE)
	VASSUME(IN.fmt == FIXFMT); /* one query per format; the registry runs all three */
#endif
	VASSUME(WAV_FMT_OK(f) && WAV_ARGS_FIT(IN.rate, IN.ch, f));
	rf_wavheader_init(&WH, IN.rate, IN.ch, f);
	VASSERT(WAV_INIT_SHAPE(&WH), "C13 init: header has the PCM / float shape and no stale field survives, whatever the structure held beforehand");
	VASSERT(rf_wavheader_validate(&WH) == 0, "C13 init: the header validates");
	VASSERT(WH.block_align == (uint32_t)IN.ch * WAV_BYTES(f), "C13 init: block alignment is channels times sample width");
	VASSERT(WH.byte_rate == (uint32_t)IN.rate * (uint32_t)WH.block_align, "C13 init: byte rate is sample rate times block alignment");
	VASSERT(WH.bits_per_sample == 8 * WAV_BYTES(f), "C13 init: bits per sample is eight times the sample width");
	VASSERT(WH.num_channels == IN.ch && WH.sample_rate == (uint32_t)IN.rate, "C13 init: channel count and rate are stored");
	VASSERT(rf_wavheader_get_format(&WH) == f, "C13 init: rf_wavheader_get_format reports the format the header was made for");
	VASSERT(WH.data_chunk_size == 0 && WAV_SIZES_CONSISTENT(&WH), "C13 init: RIFF chunk size equals the bytes that follow it (no data yet)");
	VCOVER(f == RF_WAVHEADER_S16LE && IN.ch == 32767, "widest 16-bit layout");
	VCOVER(f == RF_WAVHEADER_FLOAT && IN.rate > 100000000, "very high rate");
}

static void arbitrary_init_shaped_header(void)
{
	VERIF_LOAD_INPUTS();
	memcpy(&WH, IN.raw, sizeof(WH));
	VASSUME(WAV_INIT_SHAPE(&WH));
}

void h_set_num_frames(void)
{
	arbitrary_init_shaped_header();
	VASSUME(WAV_SIZES_CONSISTENT(&WH));
	VASSUME((unsigned long long)IN.frames * WH.block_align + (unsigned long long)(WAV_WALK_LEN(&WH) - 8) <= 0xffffffffull);
	VASSUME(WH.fmt_chunk_size == 16 || (unsigned long long)IN.frames * WH.num_channels <= 0xffffffffull);
	rf_wavheader_t before = WH;
	rf_wavheader_set_num_frames(&WH, IN.frames);
	VASSERT((unsigned long long)WH.data_chunk_size == (unsigned long long)IN.frames * WH.block_align, "C13 set_num_frames: data size is frames times block alignment");
	VASSERT(WAV_SIZES_CONSISTENT(&WH), "C13 set_num_frames: RIFF chunk size equals the bytes that follow it in a file carrying exactly the declared data");
	VASSERT(WAV_INIT_SHAPE(&WH), "C13 set_num_frames: header keeps its shape");
	before.chunk_size = WH.chunk_size;
	before.data_chunk_size = WH.data_chunk_size;
	before.sample_length = WH.sample_length;
	VASSERT(same_header(&before, &WH), "C13 set_num_frames: no other field changes");
	VCOVER(before.data_chunk_size != 0 && IN.frames == 0, "shrinking back to no data");
	VCOVER(WH.chunk_size == 0xffffffffu, "largest file");
}

void h_roundtrip(void)
{
	arbitrary_init_shaped_header();
	VASSUME(WAV_SIZES_CONSISTENT(&WH)); /* established by init, preserved by set_num_frames (their contracts) */
	uint8_t buf[128];
	rf_wavheader_t out;
	VASSERT(rf_wavheader_validate(&WH) == 0, "C13 a header made by init and set_num_frames validates");
	int n = rf_wavheader_encode(&WH, buf, sizeof(buf));
	VASSERT((long long)n == WAV_WALK_LEN(&WH) && n <= (int)sizeof(buf), "C13 encode: length is the size of the chunks the header describes");
	int m = rf_wavheader_decode(buf, n, &out);
	VASSERT(m == n, "C13 encoding then decoding returns the same length");
	VASSERT(same_header(&WH, &out), "C13 encoding then decoding returns an identical structure");
	VCOVER(WH.audio_format == 3, "float header");
	VCOVER(WH.audio_format == 1 && WH.data_chunk_size > 0xf0000000u, "PCM header with a huge data size");
}

/* decode-first direction: any accepted byte string is reproduced by re-encoding (ignored extension bytes as zero) */
void h_decode_first(void)
{
	VERIF_LOAD_INPUTS();
	VASSUME(IN.sz < 0x80000000u);
	uint8_t *in = malloc(IN.sz);
	VASSUME(in != NULL);
	for (unsigned i = 0; i < NBYTES; i++)
		if (i < IN.sz)
			VBIND(in[i], IN.bytes[i]);
	rf_wavheader_t wh;
	int r = rf_wavheader_decode(in, IN.sz, &wh);
	VASSUME(r >= 0 && (long long)r <= (long long)IN.sz); /* decodes successfully */
	uint8_t *out = malloc((unsigned)r);
	VASSUME(out != NULL);
	int n = rf_wavheader_encode(&wh, out, (unsigned)r);
	VASSERT(n == r, "C13 re-encoding a decoded header gives the same length");
	VASSUME(IN.j < (uint32_t)r);
	/* bytes of the skipped (ignored) part of a long fmt extension are normalised to zero */
	bool skipped = wh.fmt_chunk_size >= 18 && wh.cb_size != 22 && IN.j >= 38 && (unsigned long long)IN.j < 38ull + (wh.fmt_chunk_size - 18);
	VASSERT(out[IN.j] == (skipped ? 0 : in[IN.j]), "C13 re-encoding a decoded header reproduces exactly the accepted bytes (ignored extension bytes as zero)");
	VCOVER(skipped, "watched byte inside the ignored extension");
	VCOVER(wh.cb_size == 22 && IN.j == 60, "watched byte inside the 22-byte extension");
	VCOVER(WAV_HAS_FACT(&wh) && wh.fmt_chunk_size > 1000, "fact chunk after a long extension");
}

VERIF_ENTRIES(E(h_init) E(h_set_num_frames) E(h_roundtrip) E(h_decode_first))
