/*
 * C10 - message queue is a bounded FIFO of fixed buffers for every geometry (sequential reading).
 * Real code: /repo/librfn/messageq.c, messageq_empty() from /repo/include/librfn/messageq.h,
 * real <stdatomic.h>.
 *
 * Geometry is symbolic: depth Q in 1..32, message size 1..65535, slack 0..msg_len-1 trailing bytes.
 * Each operation starts from an ARBITRARY state satisfying MQ_INV (any ring position, any numbers of
 * held / claimed messages, any subset of the claimed messages already sent) and re-establishes it:
 * histories of any length by induction from messageq_init / MESSAGEQ_VAR_INIT.
 */
#include <stdlib.h>
#include <string.h>
#include "messageq_seq_contract.h"
#include "librfn/messageq.c"

unsigned g_h, g_c;

#define IN_FIELDS(S, A)                                                                          \
	S(uint8_t, q) S(uint16_t, msg_len) S(uint16_t, slack) S(uint8_t, receivep) S(uint8_t, h) S(uint8_t, c) \
	S(uint32_t, flags) S(uint8_t, slot) S(uint32_t, watch) S(uint8_t, wbyte)
VERIF_INPUTS(IN_FIELDS)

static messageq_t MQ;
static char *BASE;
static size_t BASE_LEN;

static void arbitrary_queue(void)
{
	VERIF_LOAD_INPUTS();
	VASSUME(IN.q >= 1 && IN.q <= 32 && IN.msg_len >= 1 && IN.slack < IN.msg_len);
	BASE_LEN = (size_t)IN.q * IN.msg_len + IN.slack;
	BASE = malloc(BASE_LEN);
	VASSUME(BASE != NULL);
	VASSUME(IN.watch < BASE_LEN);
	VBIND(BASE[IN.watch], (char)IN.wbyte);
	memset(&MQ, 0, sizeof(MQ));
	MQ.basep = BASE;
	MQ.msg_len = IN.msg_len;
	MQ.queue_len = IN.q;
	g_h = IN.h;
	g_c = IN.c;
	VASSUME(g_h + g_c <= IN.q && IN.receivep < IN.q);
	MQ.receivep = IN.receivep;
	MQ.sendp = (unsigned char)((IN.receivep + g_c) % IN.q);
	MQ.num_free = (unsigned char)(IN.q - g_h - g_c);
	MQ.full_flags = IN.flags;
	VASSUME(MQ_INV(&MQ));
}

static void storage_untouched(void)
{
	VASSERT(BASE[IN.watch] == (char)IN.wbyte, "C10 no byte of the caller's storage, trailing slack included, is touched by the queue");
	VASSERT(MQ.basep == BASE && MQ.msg_len == IN.msg_len && MQ.queue_len == IN.q, "C10 the geometry fields never change");
}

void h_claim(void)
{
	arbitrary_queue();
	unsigned sendp0 = MQ.sendp;
	void *m = messageq_claim(&MQ);
	if (g_h + g_c == IN.q) {
		VASSERT(m == NULL, "C10 claim returns NULL exactly when all buffers are claimed and unreleased");
	} else {
		VASSERT(m != NULL, "C10 claim succeeds whenever a buffer is free");
		VASSERT((char *)m == BASE + (size_t)sendp0 * IN.msg_len, "C10 claim returns the next buffer in cyclic order, at a multiple of the message size inside the caller's memory");
		VASSERT((size_t)sendp0 * IN.msg_len + IN.msg_len <= BASE_LEN - IN.slack, "C10 the claimed buffer lies wholly inside the whole-message part of the storage");
		g_c++;
	}
	VASSERT(MQ_INV(&MQ), "C10 claim re-establishes the queue invariant");
	storage_untouched();
	VCOVER(IN.q == 32 && m != NULL && sendp0 == 31, "wrap of the 32-deep queue");
	VCOVER(IN.q == 1 && m == NULL, "single-slot queue full");
	VCOVER(IN.msg_len == 65535 && IN.slack == 65534, "largest message size with maximal slack");
}

void h_send(void)
{
	arbitrary_queue();
	unsigned s = IN.slot; /* any claimed, not yet sent message: sends may be reordered */
	VASSUME(MQ_IN_CLAIMED(&MQ, s) && !MQ_FLAG(&MQ, s));
	unsigned f0 = MQ.full_flags;
	messageq_send(&MQ, BASE + (size_t)s * IN.msg_len);
	VASSERT(MQ.full_flags == (f0 | (1u << s)), "C10 send marks exactly the sent message as full, the 32nd flag (sign bit) included");
	VASSERT(MQ_INV(&MQ), "C10 send re-establishes the queue invariant");
	storage_untouched();
	VCOVER(s == 31, "the flag in the sign bit");
	VCOVER(s != MQ.receivep && g_c > 1, "out-of-order send");
}

void h_receive(void)
{
	arbitrary_queue();
	unsigned r0 = MQ.receivep;
	bool oldest_sent = MQ_FLAG(&MQ, r0);
	bool empty = messageq_empty(&MQ);
	void *m = messageq_receive(&MQ);
	VASSERT(empty == (m == NULL), "C10 messageq_empty is true exactly when receive would return nothing");
	VASSERT((m != NULL) == oldest_sent, "C10 receive returns a message only once the oldest claimed message has been sent");
	if (m != NULL) {
		VASSERT((char *)m == BASE + (size_t)r0 * IN.msg_len, "C10 receive returns messages in claim order");
		VASSERT(MQ.receivep == MQ_NEXT(&MQ, r0), "C10 receive advances cyclically");
		g_c--;
		g_h++;
	}
	VASSERT(MQ_INV(&MQ), "C10 receive re-establishes the queue invariant");
	storage_untouched();
	VCOVER(m != NULL && r0 == 31, "receive wraps the 32-deep queue");
	VCOVER(m == NULL && g_c > 0 && MQ.full_flags != 0, "oldest not sent although younger ones are");
}

void h_release(void)
{
	arbitrary_queue();
	VASSUME(g_h >= 1);
	messageq_release(&MQ, BASE + (size_t)((MQ.receivep + IN.q - g_h) % IN.q) * IN.msg_len);
	g_h--;
	VASSERT(MQ_INV(&MQ), "C10 release re-establishes the queue invariant (one more free buffer)");
	storage_untouched();
}

/* the static initialiser and messageq_init describe the same (empty) queue, which satisfies the invariant */
void h_init(void)
{
	VERIF_LOAD_INPUTS();
	VASSUME(IN.q >= 1 && IN.q <= 32 && IN.msg_len >= 1 && IN.slack < IN.msg_len);
	BASE_LEN = (size_t)IN.q * IN.msg_len + IN.slack;
	BASE = malloc(BASE_LEN);
	VASSUME(BASE != NULL);
	VASSUME(IN.watch < BASE_LEN);
	VBIND(BASE[IN.watch], (char)IN.wbyte);
	messageq_t a = MESSAGEQ_VAR_INIT(BASE, BASE_LEN, IN.msg_len);
	memset(&MQ, 0xa5, sizeof(MQ));
	messageq_init(&MQ, BASE, BASE_LEN, IN.msg_len);
	VASSERT(a.basep == MQ.basep && a.msg_len == MQ.msg_len && a.queue_len == MQ.queue_len && a.num_free == MQ.num_free &&
		a.sendp == MQ.sendp && a.full_flags == MQ.full_flags && a.receivep == MQ.receivep,
		"C10 the static initialiser and messageq_init describe the same queue");
	g_h = g_c = 0;
	VASSERT(MQ.queue_len == IN.q && MQ_INV(&MQ), "C10 a fresh queue has the requested depth, all buffers free");
	VASSERT(BASE[IN.watch] == (char)IN.wbyte, "C10 no byte of the caller's storage, trailing slack included, is touched by the queue");
	VCOVER(IN.q == 32 && IN.slack > 0, "deepest queue with slack");
}

VERIF_ENTRIES(E(h_claim) E(h_send) E(h_receive) E(h_release) E(h_init))
