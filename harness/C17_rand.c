/*
 * C17 - rand31_r against 64-bit reference arithmetic for every state 1..2^31-2.
 * Real code: /repo/librfn/rand.c.  The state space is split on bits 16..16+PARTBITS-1
 * of the state (-DPART=k -DPARTBITS=n; measured to be the split that helps the SAT
 * solver most) so that the partitions run in parallel; the registry generates all
 * 2^PARTBITS partitions, whose union is the whole domain.
 */
#include "rand_contract.h"
#include "librfn/rand.c"

#define IN_FIELDS(S, A) S(uint32_t, s)
VERIF_INPUTS(IN_FIELDS)

#ifndef PARTBITS
#define PARTBITS 0
#define PART 0
#endif

void h_rand31(void)
{
	VERIF_LOAD_INPUTS();
	VASSUME(1 <= IN.s && IN.s <= 0x7ffffffeu);
#ifndef VERIF_NATIVE
	VASSUME(((IN.s >> 16) & ((1u << PARTBITS) - 1)) == PART);
#endif
	uint32_t seed = IN.s;
	uint32_t r = rand31_r(&seed);
#ifdef EUCLID
	/* independent formulation: 16807*s == q*M + r with 0 <= r < M, q*M written (q<<31)-q */
	uint64_t prod = 16807ull * IN.s;
	uint64_t q = (prod - r) / 0x7fffffffull;
	VASSERT(((q << 31) - q) + r == prod, "C17 rand31_r: 16807*s == q*(2^31-1) + result (Euclidean form)");
#elif defined(VERIF_NATIVE)
	/* under CBMC this is the ensures clause of the contract (rand_contract.h), enforced by DFCC;
	 * it is repeated here only for the native replay, a second copy of the modulo would double
	 * the solver time */
	VASSERT(r == (uint32_t)((16807ull * IN.s) % 0x7fffffffull), "C17 rand31_r returns 16807*s mod (2^31-1)");
#endif
	VASSERT(seed == r, "C17 rand31_r stores the returned value as the new state");
	VASSERT(1 <= r && r <= 0x7ffffffeu, "C17 rand31_r result is again in 1..2^31-2 (never the absorbing state 0)");
	VCOVER(IN.s > 0x70000000u, "a large state of this partition");
	VCOVER(IN.s < 0x00100000u, "a small state of this partition");
}

VERIF_ENTRIES(E(h_rand31))
