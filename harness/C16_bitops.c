/*
 * C16 - bit counting helpers against their mathematical definitions, all inputs.
 * Real code: /repo/librfn/bitops.c, /repo/include/librfn/constexpr.h (macros).
 */
#include "bitops_contract.h"
#include "librfn/constexpr.h"
#include "librfn/bitops.c"

#define IN_FIELDS(S, A) S(uint32_t, x) S(uint64_t, c)
VERIF_INPUTS(IN_FIELDS)

/* independent oracles: plain bit loops (constant bound, unwound completely) */
static int ref_pop64(uint64_t v)
{
	int n = 0;
	for (int i = 0; i < 64; i++)
		n += (int)((v >> i) & 1);
	return n;
}
static int ref_clz32(uint32_t v)
{
	int n = 0;
	for (int i = 31; i >= 0 && !((v >> i) & 1); i--)
		n++;
	return n;
}
static int ref_ctz64(uint64_t v, int width)
{
	int n = 0;
	for (int i = 0; i < width && !((v >> i) & 1); i++)
		n++;
	return n;
}

void h_bitcnt(void)
{
	VERIF_LOAD_INPUTS();
	int r = bitcnt(IN.x);
	VASSERT(r == ref_pop64(IN.x), "C16 bitcnt(x) is the number of one bits of x (bit-loop oracle)");
	VCOVER(r == 32, "all ones");
	VCOVER(r == 17, "seventeen bits");
}

void h_clz(void)
{
	VERIF_LOAD_INPUTS();
	int r = clz(IN.x);
	VASSERT(r == ref_clz32(IN.x), "C16 clz(x) is the number of leading zero bits, 32 for x == 0");
	VCOVER(r == 32, "zero");
	VCOVER(r == 13, "thirteen");
}

void h_ctz(void)
{
	VERIF_LOAD_INPUTS();
	int r = ctz(IN.x);
	VASSERT(r == ref_ctz64(IN.x, 32), "C16 ctz(x) is the number of trailing zero bits, 32 for x == 0");
	VCOVER(r == 32, "zero");
	VCOVER(r == 31, "top bit only");
}

void h_ilog2(void)
{
	VERIF_LOAD_INPUTS();
	VASSUME(IN.x != 0);
	int r = ilog2(IN.x);
	VASSERT(r == 31 - ref_clz32(IN.x), "C16 ilog2(x) is the position of the highest set bit for x > 0");
	VCOVER(r == 0, "one");
	VCOVER(r == 31, "top");
}

/* regdump.c extracts fields as (reg & mask) >> ctz(mask) */
void h_ctz_field(void)
{
	VERIF_LOAD_INPUTS();
	uint32_t mask = (uint32_t)IN.c, reg = IN.x;
	VASSUME(mask != 0);
	uint32_t field = (reg & mask) >> ctz(mask);
	VASSERT((field << ref_ctz64(mask, 32)) == (reg & mask), "C16 ctz as used for register fields: field shifted back equals reg & mask");
	VASSERT((field & 1) == ((reg >> ref_ctz64(mask, 32)) & 1), "C16 ctz as used for register fields: bit 0 of the field is the lowest mask bit");
}

/* the constexpr macros on run-time values, every 64-bit argument */
int verif_const_pop(uint64_t c) { return const_pop(c); }
int verif_const_lssb(uint64_t c) { return const_lssb(c); }

void h_const_pop(void)
{
	VERIF_LOAD_INPUTS();
	int r = verif_const_pop(IN.c);
	VASSERT(r == ref_pop64(IN.c), "C16 const_pop(c) is the number of one bits of the 64-bit c");
	VCOVER(r == 64, "all ones");
}

void h_const_lssb(void)
{
	VERIF_LOAD_INPUTS();
	int r = verif_const_lssb(IN.c);
	VASSERT(IN.c == 0 ? r == -1 : r == ref_ctz64(IN.c, 64), "C16 const_lssb(c) is the index of the lowest set bit, -1 for c == 0");
	VCOVER(r == 63, "top bit only");
	VCOVER(r == -1, "zero");
}

/* compile-time use: the same expressions with constant arguments (folded by the compiler) */
void h_const_folded(void)
{
	VASSERT(const_pop(0) == 0 && const_pop(0xffffffffffffffffull) == 64 && const_pop(0x8000000000000001ull) == 2 && const_pop(0x00010000) == 1,
		"C16 const_pop on constant arguments");
	VASSERT(const_lssb(0) == -1 && const_lssb(1) == 0 && const_lssb(0x8000000000000000ull) == 63 && const_lssb(0x00f0) == 4,
		"C16 const_lssb on constant arguments");
}

VERIF_ENTRIES(E(h_bitcnt) E(h_clz) E(h_ctz) E(h_ilog2) E(h_ctz_field) E(h_const_pop) E(h_const_lssb) E(h_const_folded))
