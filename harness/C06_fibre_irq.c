/*
 * C06 (and the interruption clause of C03): the scheduler under interruption.  The harness code lives in C01_fibre.c
 * (section C06_IRQ) so that the abstract state, the abstraction function and the specification functions are shared with
 * C01-C03; this translation unit is compiled against the shadow <stdatomic.h> (-I/verif/shadow).
 */
#define C06_IRQ
#include "C01_fibre.c"
