/*
 * C20 - memory log always holds the most recent 256 messages, oldest first.
 * Real code: /repo/librfn/mlog.c (static state reached by textual inclusion).
 *
 * Ghost: g_count (true message count) and one watched message, prophecy-chosen number IN.k0 with its
 * tuple (format, three arguments).  Watched invariant W: if k0 < g_count and g_count - k0 <= 256 then
 * slot k0 % 256 holds the watched tuple.  Each operation is verified from an ARBITRARY state that
 * satisfies MLOG_INV and W (the head counter ranges over its whole domain, the fold after 2^31
 * messages is an ordinary case), and re-establishes both: histories of any length by induction.
 */
#include <stdio.h>
#include <stdarg.h>
#include <stdlib.h>
#include <string.h>
#include "verif.h"

/* formatting is external: capture what the readers hand to the formatter */
static const char *cap_fmt;
static uintptr_t cap_arg[3];
static unsigned cap_calls;
static char cap_result[4];
#define CAPTURE(f, a, b, c) (cap_fmt = (f), cap_arg[0] = (a), cap_arg[1] = (b), cap_arg[2] = (c), cap_calls++)
static char *verif_strdup_printf(const char *f, uintptr_t a, uintptr_t b, uintptr_t c) { CAPTURE(f, a, b, c); return cap_result; }
/* mlog_dump: the k-th fprintf call is watched */
static unsigned dump_watch, dump_calls;
static int verif_fprintf(FILE *fp, const char *f, uintptr_t a, uintptr_t b, uintptr_t c)
{
	(void)fp;
	if (dump_calls++ == dump_watch)
		CAPTURE(f, a, b, c);
	return 0;
}
#include "librfn/string.h"
#include "librfn/util.h"
#define strdup_printf verif_strdup_printf
#define fprintf verif_fprintf
#include "librfn/mlog.c"
#undef strdup_printf
#undef fprintf
#include "mlog_contract.h"

uint64_t g_count;

/*
 * Contract stub for get_line, substituted at the readers' call sites with goto-instrument --replace-calls
 * (DESIGN P3 / 2.4).  get_line's contract (mlog_contract.h, enforced on the real body by the harness "get_line")
 * says RESULT == &log.line[MLOG_SLOT(n)] or NULL.  CBMC mis-reads p->arg[0] through a pointer with a symbolic
 * offset into this nested aggregate, so the stub realises the consequence the readers rely on - "RESULT points to
 * a line whose four fields are those of log.line[MLOG_SLOT(n)]" - by returning a snapshot taken with direct
 * indexing.  The readers only dereference the result, so this weaker contract is all they can observe.
 */
static struct mlog_line stub_line;
struct mlog_line *get_line_contract(unsigned int n); /* external linkage: kept in the goto binary for --replace-calls */
struct mlog_line *get_line_contract(unsigned int n)
{
	VASSERT(MLOG_INV, "C20 get_line is called with the counter invariant intact (precondition of its contract)");
	if ((uint64_t)n >= MLOG_RETAINED)
		return NULL;
	stub_line = log.line[MLOG_SLOT(n)];
	return &stub_line;
}

/*
 * Variant for mlog_dump, whose loop is unwound 256 times: a symbolic-index read per iteration is too expensive.
 * The harness takes the snapshot of the watched line once before the call (mlog_dump's frame - it assigns
 * nothing of the log - is an enforced contract clause, so the snapshot is still current inside the loop); for
 * every other n the stub returns a line with arbitrary fields: an over-approximation of the contract that is
 * sound because what the non-watched iterations print is not examined.
 */
static struct mlog_line dump_line;
struct mlog_line nondet_mlog_line(void);
struct mlog_line *get_line_contract_dump(unsigned int n);
struct mlog_line *get_line_contract_dump(unsigned int n)
{
	VASSERT(MLOG_INV, "C20 get_line is called with the counter invariant intact (precondition of its contract)");
	if ((uint64_t)n >= MLOG_RETAINED)
		return NULL;
#ifndef VERIF_NATIVE
	stub_line = (n == dump_watch) ? dump_line : nondet_mlog_line();
#else
	stub_line = log.line[MLOG_SLOT(n)];
#endif
	return &stub_line;
}
#ifndef VERIF_NATIVE
void mlog_dump(FILE *f)
ASSIGNS(cap_fmt, cap_arg, cap_calls, dump_calls, stub_line);
#endif

static const char FMT0[] = "a %d %d %d\n", FMT1[] = "b %x %x %x\n", FMT2[] = "c\n", FMT3[] = "d %u\n";
static const char *const FMTS[4] = { FMT0, FMT1, FMT2, FMT3 };

#define IN_FIELDS(S, A)                                                                          \
	S(uint32_t, head) S(uint64_t, count) S(uint64_t, k0) S(uint8_t, wf) A(uint64_t, warg, 3)  \
	S(uint8_t, f) A(uint64_t, arg, 3) S(int32_t, k) S(uint8_t, other)
VERIF_INPUTS(IN_FIELDS)

static bool watched_present(void) { return IN.k0 < g_count && g_count - IN.k0 <= MLOG_LINES; }
static bool slot_is(unsigned s, const char *f, uint64_t a, uint64_t b, uint64_t c)
{
	return log.line[s].fmt == f && log.line[s].arg[0] == (uintptr_t)a && log.line[s].arg[1] == (uintptr_t)b && log.line[s].arg[2] == (uintptr_t)c;
}
static bool watched_inv(void)
{
	return !watched_present() || slot_is((unsigned)(IN.k0 % MLOG_LINES), FMTS[IN.wf & 3], IN.warg[0], IN.warg[1], IN.warg[2]);
}

static void arbitrary_log(void)
{
	VERIF_LOAD_INPUTS();
#ifndef VERIF_NATIVE
	__CPROVER_havoc_object(&log); /* statics are zero-initialised: havoc explicitly (vacuity guard) */
#endif
	log.head = IN.head;
	g_count = IN.count;
	VASSUME(g_count < 0xffffffffffff0000ull);
	VASSUME(MLOG_INV);
	if (watched_present()) {
		unsigned s = (unsigned)(IN.k0 % MLOG_LINES);
		log.line[s].fmt = FMTS[IN.wf & 3];
		log.line[s].arg[0] = (uintptr_t)IN.warg[0];
		log.line[s].arg[1] = (uintptr_t)IN.warg[1];
		log.line[s].arg[2] = (uintptr_t)IN.warg[2];
	}
}

/* mlog(): message number g_count goes to slot g_count % 256, everything else is preserved */
void h_mlog(void)
{
	arbitrary_log();
	const char *f = FMTS[IN.f & 3];
	unsigned o = IN.other; /* any other slot */
	VASSUME(o != g_count % MLOG_LINES);
	struct mlog_line before = log.line[o];
	uint64_t n = g_count;
	mlog(f, (uintptr_t)IN.arg[0], (uintptr_t)IN.arg[1], (uintptr_t)IN.arg[2]);
	g_count = n + 1;
	if (IN.k0 == n) { /* prophecy: this was the watched message */
		IN.wf = IN.f; IN.warg[0] = IN.arg[0]; IN.warg[1] = IN.arg[1]; IN.warg[2] = IN.arg[2];
	}
	VASSERT(slot_is((unsigned)(n % MLOG_LINES), f, IN.arg[0], IN.arg[1], IN.arg[2]), "C20 mlog stores format and three arguments in the slot of message number n");
	VASSERT(MLOG_INV, "C20 mlog keeps the counter invariant, across the fold after 2^31 messages too");
	VASSERT(slot_is(o, before.fmt, before.arg[0], before.arg[1], before.arg[2]), "C20 mlog leaves every other slot untouched");
	VASSERT(watched_inv(), "C20 a message stays retrievable until 256 newer ones have been logged");
	VCOVER(IN.head == MLOG_FOLD - 1, "counter folds");
	VCOVER(n > 0x100000000ull, "beyond 2^32 messages");
	VCOVER(n == 255, "log becomes full");
}

void h_mlog_nice(void)
{
	arbitrary_log();
	const char *f = FMTS[IN.f & 3];
	uint64_t n = g_count;
	unsigned o = IN.other;
	struct mlog_line before = log.line[o];
	mlog_nice(f, (uintptr_t)IN.arg[0], (uintptr_t)IN.arg[1], (uintptr_t)IN.arg[2]);
	if (n < MLOG_LINES) {
		g_count = n + 1;
		if (IN.k0 == n) {
			IN.wf = IN.f; IN.warg[0] = IN.arg[0]; IN.warg[1] = IN.arg[1]; IN.warg[2] = IN.arg[2];
		}
		VASSERT(slot_is((unsigned)n, f, IN.arg[0], IN.arg[1], IN.arg[2]), "C20 mlog_nice records the message while fewer than 256 have been recorded");
		if (o != n)
			VASSERT(slot_is(o, before.fmt, before.arg[0], before.arg[1], before.arg[2]), "C20 mlog_nice leaves every other slot untouched");
	} else {
		VASSERT(slot_is(o, before.fmt, before.arg[0], before.arg[1], before.arg[2]) && log.head == IN.head,
			"C20 mlog_nice records nothing once 256 messages have been recorded since the clear");
	}
	VASSERT(MLOG_INV, "C20 mlog_nice keeps the counter invariant");
	VASSERT(watched_inv(), "C20 mlog_nice never displaces a retained message");
	VCOVER(n == 255, "last nice message");
	VCOVER(n == 256, "first refused nice message");
	VCOVER(n >= MLOG_FOLD, "nice after the fold");
}

void h_clear(void)
{
	arbitrary_log();
	mlog_clear();
	g_count = 0;
	VASSERT(MLOG_INV && MLOG_RETAINED == 0, "C20 mlog_clear empties the log");
	VASSERT(get_line(0) == NULL && mlog_get_line(IN.k) == NULL, "C20 after mlog_clear every line index yields NULL");
}

/* static initial state satisfies the invariant with no messages */
void h_initial(void)
{
	g_count = 0;
	VASSERT(MLOG_INV && mlog_get_line(0) == NULL, "C20 the initial state is the empty log");
}

/* get_line: NULL outside 0..min(n,256)-1 (negative k included), else the slot of message n - min(n,256) + k */
void h_get_line(void)
{
	arbitrary_log();
	struct mlog_line *l = get_line((unsigned)IN.k);
	bool in_range = IN.k >= 0 && (uint64_t)IN.k < MLOG_RETAINED;
	VASSERT(in_range ? l == &log.line[MLOG_SLOT(IN.k)] : l == NULL, "C20 line k is the slot of message n - min(n,256) + k; every other k yields NULL");
	VCOVER(in_range && g_count > 0x80000000ull && IN.k == 255, "newest line after the fold");
	VCOVER(!in_range && IN.k < 0, "negative index");
}

/* readers hand exactly that line's four fields to the formatter */
void h_mlog_get_line(void)
{
	arbitrary_log();
	bool in_range = IN.k >= 0 && (uint64_t)IN.k < MLOG_RETAINED;
	/* the watched message is the one being read */
	VASSUME(!in_range || g_count - MLOG_RETAINED + (uint64_t)IN.k == IN.k0);
	cap_calls = 0;
	char *s = mlog_get_line(IN.k);
	if (!in_range) {
		VASSERT(s == NULL && cap_calls == 0, "C20 mlog_get_line yields NULL for every k outside 0..min(n,256)-1, negative k included");
	} else {
		VASSERT(s != NULL && cap_calls == 1, "C20 mlog_get_line formats exactly one line");
		VASSERT(cap_fmt == FMTS[IN.wf & 3] && cap_arg[0] == (uintptr_t)IN.warg[0] && cap_arg[1] == (uintptr_t)IN.warg[1] && cap_arg[2] == (uintptr_t)IN.warg[2],
			"C20 mlog_get_line(k) formats message number n - min(n,256) + k with its own format string and arguments");
	}
	VCOVER(in_range && IN.k == 0 && g_count > 1000, "oldest line of a wrapped log");
}

void h_mlog_dump(void)
{
	arbitrary_log();
#if defined(KFIX) && !defined(VERIF_NATIVE)
	/* one query per watched line index k (the unwound loop folds when k is concrete: 21 s instead of hours);
	 * the thorough tier runs all 256 values, the quick tier a sample - see the registry */
	VASSUME(IN.k == KFIX);
#endif
	VASSUME(IN.k >= 0 && (uint64_t)IN.k < MLOG_RETAINED);
	VASSUME(g_count - MLOG_RETAINED + (uint64_t)IN.k == IN.k0);
	dump_watch = (unsigned)IN.k;
	dump_line = log.line[MLOG_SLOT(IN.k)];
	dump_calls = 0;
	cap_calls = 0;
	mlog_dump(NULL);
	VASSERT(dump_calls == MLOG_RETAINED, "C20 mlog_dump writes min(n,256) lines");
	VASSERT(cap_calls == 1 && cap_fmt == FMTS[IN.wf & 3] && cap_arg[0] == (uintptr_t)IN.warg[0] && cap_arg[1] == (uintptr_t)IN.warg[1] && cap_arg[2] == (uintptr_t)IN.warg[2],
		"C20 the k-th line written by mlog_dump is message number n - min(n,256) + k");
}

VERIF_ENTRIES(E(h_mlog) E(h_mlog_nice) E(h_clear) E(h_initial) E(h_get_line) E(h_mlog_get_line) E(h_mlog_dump))
