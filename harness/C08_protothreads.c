/*
 * C08 - protothread macros: per-template step contracts against explicit state machines (DESIGN P5, 5.C08).
 * Real code: /repo/include/librfn/protothreads.h and PT_BEGIN_FIBRE of /repo/include/librfn/fibre.h.
 *
 * The macros expand inside user functions, so there is nothing in /repo to put a contract on and "all
 * protothread bodies" cannot be quantified over.  What is proved here, for a FIXED FAMILY of template
 * protothreads written only with the real macros:
 *
 *   step contract (per template): from EVERY abstract program point - the initial state left by PT_INIT and
 *   every blocking point, for spawning templates combined with every point of the active child - and ALL values
 *   of the persistent variables, of the environment consulted by wait conditions, and of the saved state of
 *   children that are not active (stale), ONE invocation of the real protothread function
 *     - returns the same code,
 *     - performs the same effects in the same order (the effects of the invocation are logged verbatim and the
 *       two logs are compared element by element, plus the number of effects and of condition evaluations),
 *     - leaves the same persistent variables, and
 *     - saves the resume point that belongs to the abstract point where the reference stopped,
 *   as the hand-written reference: an explicit state machine for "the same body as one sequential program cut at
 *   its blocking points" (one case per abstract point = the straight code from there to the next blocking point).
 *
 *   Every step starts from an arbitrary point and re-establishes the correspondence "saved state <-> abstract
 *   point", so any number of invocations is covered by induction; the base case (PT_INIT leaves the point START)
 *   is part of the set-up.
 *
 * Resume labels are __LINE__-derived inside the macros.  They are not hard-coded: a set-up phase runs the real
 * function from PT_INIT along a scripted concrete path that stops once at every blocking point and records the
 * saved value (lbl[point]).  The set-up also checks the return code of every scripted invocation and that all
 * labels of a template are distinct and non-zero.
 *
 * Scope conditions of the record are properties of the templates: one PT_* blocking macro per source line,
 * none inside a nested switch, PT_CHILD_OK consulted before the next blocking point, no invocation after
 * exit/fail without PT_INIT (after exit the saved state is a don't-care: the reference is at PC_DONE).
 */
#include <string.h>
#include "verif.h"
#include "librfn/protothreads.h"
#include "librfn/fibre.h"

/* ------------------------------------------------------------------------------------------------ effects */

/*
 * The effects of one invocation are logged verbatim, in order (no invocation of a template performs more than
 * NTRACE effects).  Comparing the logs compares the sequences exactly: there is no hash that could collide.
 * (A multiplicative fold acc = acc * 31 + tag over a symbolic start value was measured first: the SAT back ends
 * do not finish the resulting multiplier-chain equivalence even for the smallest template.)
 */
#define NTRACE 16
struct trace {
	uint32_t tag[NTRACE];
};
static struct trace trace; /* the effects of this invocation, in order */
static uint32_t neff;      /* number of effects */
static uint8_t env[4];     /* what the environment answers to the k-th poll of this invocation */
static uint8_t env_k;

static void eff(uint32_t tag)
{
	trace.tag[neff & (NTRACE - 1)] = tag;
	neff++;
}

/* a wait condition with a visible evaluation: every evaluation is an effect and consumes one answer */
static bool poll(uint32_t tag)
{
	eff(tag);
	return env[env_k++ & 3] & 1;
}

static void env_all(uint8_t v)
{
	env[0] = env[1] = env[2] = env[3] = v;
	env_k = 0;
}

/* abstract program points: 0 is always START (state after PT_INIT) */
#define PC_START 0
#define PC_STALE 254 /* harness only: "this child is not active, its saved state is arbitrary" */
#define PC_DONE 255  /* reference only: exited or failed; re-invocation needs PT_INIT */
/* reference-internal result: "this stretch of the sequential program completed without blocking" */
#define SEQ_CONTINUE 99

static int block_at(uint8_t *pc, uint8_t point, int code)
{
	*pc = point;
	return code;
}

static int finish(uint8_t *pc, int code)
{
	*pc = PC_DONE;
	return code;
}

static bool learn_ok; /* every scripted set-up invocation returned the expected code */

static bool labels_distinct(const pt_t *lbl, unsigned n)
{
	bool ok = (lbl[0] == 0);
	for (unsigned a = 1; a < n; a++) {
		ok = ok && lbl[a] != 0;
		for (unsigned b = 1; b < a; b++)
			ok = ok && lbl[a] != lbl[b];
	}
	return ok;
}

/* ======================================================================================================
 * LEAF: child used by T3, T4, T6 and a template of its own.  PT_EXIT_ON before the first blocking point
 * (a child that completes without ever blocking), PT_YIELD, PT_WAIT_UNTIL, PT_FAIL_ON, PT_END.
 */
struct leaf {
	pt_t pt;
	uint8_t pc;
	uint8_t mode;
};
enum { L_START, L_Y, L_WU, L_N };
static pt_t leaf_lbl[L_N];

static pt_state_t leaf(struct leaf *c)
{
	PT_BEGIN(&c->pt);
	eff(50);
	PT_EXIT_ON(c->mode == 1);
	eff(55);
	PT_YIELD();
	eff(51);
	PT_WAIT_UNTIL(poll(52));
	eff(53);
	PT_FAIL_ON(c->mode == 2);
	eff(54);
	PT_END();
}

static int leaf_at_wait_until(struct leaf *s)
{
	if (!poll(52))
		return block_at(&s->pc, L_WU, PT_WAITING);
	eff(53);
	if (s->mode == 2)
		return finish(&s->pc, PT_FAILED);
	eff(54);
	return finish(&s->pc, PT_EXITED);
}

static int leaf_ref(struct leaf *s)
{
	switch (s->pc) {
	case L_START:
		eff(50);
		if (s->mode == 1)
			return finish(&s->pc, PT_EXITED);
		eff(55);
		return block_at(&s->pc, L_Y, PT_YIELDED);
	case L_Y:
		eff(51);
		return leaf_at_wait_until(s);
	case L_WU: /* the condition is evaluated again on every resumption */
		return leaf_at_wait_until(s);
	}
	return -1;
}

static void leaf_learn(void)
{
	struct leaf c = { .pt = 0xffff, .mode = 0 };
	env_all(0);
	PT_INIT(&c.pt);
	leaf_lbl[L_START] = c.pt;
	learn_ok = learn_ok && leaf(&c) == PT_YIELDED;
	leaf_lbl[L_Y] = c.pt;
	learn_ok = learn_ok && leaf(&c) == PT_WAITING;
	leaf_lbl[L_WU] = c.pt;
}

static void leaf_state(struct leaf *c, uint8_t pc, uint16_t stale, uint8_t mode)
{
	c->pc = pc;
	c->pt = pc < L_N ? leaf_lbl[pc] : stale;
	c->mode = mode;
}

static bool leaf_vars_eq(const struct leaf *r, const struct leaf *s)
{
	return r->mode == s->mode;
}

static bool leaf_resume_ok(const struct leaf *r, const struct leaf *s)
{
	return s->pc < L_N && r->pt == leaf_lbl[s->pc];
}

/* ======================================================================================================
 * T1: PT_YIELD inside a conditional inside a loop inside a conditional; PT_WAIT_UNTIL in the other arm.
 */
struct t1 {
	pt_t pt;
	uint8_t pc;
	uint8_t sel, i;
};
enum { T1_START, T1_Y, T1_WU, T1_N };
static pt_t t1_lbl[T1_N];

static pt_state_t t1(struct t1 *c)
{
	PT_BEGIN(&c->pt);
	eff(1);
	if (c->sel) {
		for (c->i = 0; c->i < 4; c->i++) {
			eff(10 + c->i);
			if (c->i & 1) {
				PT_YIELD();
				eff(20 + c->i);
			}
		}
	} else {
		eff(2);
		PT_WAIT_UNTIL(poll(30));
		eff(3);
	}
	eff(4);
	PT_END();
}

static int t1_tail(struct t1 *s)
{
	eff(4);
	return finish(&s->pc, PT_EXITED);
}

/* the for loop from its test onwards */
static int t1_loop(struct t1 *s)
{
	while (s->i < 4) {
		eff(10 + s->i);
		if (s->i & 1)
			return block_at(&s->pc, T1_Y, PT_YIELDED);
		s->i++;
	}
	return t1_tail(s);
}

static int t1_at_wait_until(struct t1 *s)
{
	if (!poll(30))
		return block_at(&s->pc, T1_WU, PT_WAITING);
	eff(3);
	return t1_tail(s);
}

static int t1_ref(struct t1 *s)
{
	switch (s->pc) {
	case T1_START:
		eff(1);
		if (s->sel) {
			s->i = 0;
			return t1_loop(s);
		}
		eff(2);
		return t1_at_wait_until(s);
	case T1_Y: /* immediately after the yield, in the iteration that yielded */
		eff(20 + s->i);
		s->i++;
		return t1_loop(s);
	case T1_WU:
		return t1_at_wait_until(s);
	}
	return -1;
}

static void t1_learn(void)
{
	struct t1 c = { .pt = 0xffff, .sel = 1 };
	env_all(0);
	PT_INIT(&c.pt);
	t1_lbl[T1_START] = c.pt;
	learn_ok = learn_ok && t1(&c) == PT_YIELDED;
	t1_lbl[T1_Y] = c.pt;
	c.sel = 0;
	PT_INIT(&c.pt);
	learn_ok = learn_ok && t1(&c) == PT_WAITING;
	t1_lbl[T1_WU] = c.pt;
}

/* ======================================================================================================
 * T2: PT_WAIT twice in a row, and inside nested loops (the inner one is reached again while it is itself
 * the most recent blocking point); the outer bound is a persistent variable.
 */
struct t2 {
	pt_t pt;
	uint8_t pc;
	uint8_t n, i, j;
};
enum { T2_START, T2_W1, T2_W2, T2_W3, T2_W4, T2_N };
static pt_t t2_lbl[T2_N];

static pt_state_t t2(struct t2 *c)
{
	PT_BEGIN(&c->pt);
	eff(1);
	PT_WAIT();
	PT_WAIT();
	eff(2);
	for (c->i = 0; c->i < c->n; c->i++) {
		eff(10 + c->i);
		for (c->j = 0; c->j < 2; c->j++) {
			PT_WAIT();
			eff(20 + c->j);
		}
		PT_WAIT();
		eff(30);
	}
	eff(3);
	PT_END();
}

static int t2_inner(struct t2 *s)
{
	if (s->j < 2)
		return block_at(&s->pc, T2_W3, PT_WAITING);
	return block_at(&s->pc, T2_W4, PT_WAITING);
}

static int t2_outer(struct t2 *s)
{
	if (s->i < s->n) {
		eff(10 + s->i);
		s->j = 0;
		return t2_inner(s);
	}
	eff(3);
	return finish(&s->pc, PT_EXITED);
}

static int t2_ref(struct t2 *s)
{
	switch (s->pc) {
	case T2_START:
		eff(1);
		return block_at(&s->pc, T2_W1, PT_WAITING);
	case T2_W1: /* the second wait blocks as well, nothing happens in between */
		return block_at(&s->pc, T2_W2, PT_WAITING);
	case T2_W2:
		eff(2);
		s->i = 0;
		return t2_outer(s);
	case T2_W3:
		eff(20 + s->j);
		s->j++;
		return t2_inner(s);
	case T2_W4:
		eff(30);
		s->i++;
		return t2_outer(s);
	}
	return -1;
}

static void t2_learn(void)
{
	struct t2 c = { .pt = 0xffff, .n = 1 };
	PT_INIT(&c.pt);
	t2_lbl[T2_START] = c.pt;
	learn_ok = learn_ok && t2(&c) == PT_WAITING;
	t2_lbl[T2_W1] = c.pt;
	learn_ok = learn_ok && t2(&c) == PT_WAITING;
	t2_lbl[T2_W2] = c.pt;
	learn_ok = learn_ok && t2(&c) == PT_WAITING;
	t2_lbl[T2_W3] = c.pt;
	learn_ok = learn_ok && t2(&c) == PT_WAITING; /* the inner wait, second time round */
	learn_ok = learn_ok && t2(&c) == PT_WAITING;
	t2_lbl[T2_W4] = c.pt;
}

/* ======================================================================================================
 * T3: PT_SPAWN of LEAF inside a loop, PT_CHILD_OK, a blocking point of the parent's own in the failure arm.
 */
struct t3 {
	pt_t pt;
	uint8_t pc;
	uint8_t i;
	struct leaf ch;
};
enum { T3_START, T3_SP, T3_Y, T3_N };
static pt_t t3_lbl[T3_N];

static pt_state_t t3(struct t3 *c)
{
	PT_BEGIN(&c->pt);
	eff(1);
	for (c->i = 0; c->i < 3; c->i++) {
		eff(10 + c->i);
		PT_SPAWN(&c->ch.pt, leaf(&c->ch));
		if (PT_CHILD_OK()) {
			eff(2);
		} else {
			eff(3);
			PT_YIELD();
			eff(5);
		}
		c->ch.mode++;
	}
	eff(4);
	PT_END();
}

/* from the spawn (child at s->ch.pc) to the end of the loop body */
static int t3_rest_of_iteration(struct t3 *s)
{
	int r = leaf_ref(&s->ch);
	if (r == PT_YIELDED || r == PT_WAITING) /* relayed upward unchanged */
		return block_at(&s->pc, T3_SP, r);
	if (r == PT_FAILED) {
		eff(3);
		return block_at(&s->pc, T3_Y, PT_YIELDED);
	}
	eff(2);
	s->ch.mode++;
	s->i++;
	return SEQ_CONTINUE;
}

static int t3_loop(struct t3 *s)
{
	while (s->i < 3) {
		eff(10 + s->i);
		s->ch.pc = L_START; /* the child starts from its beginning each time the spawn is reached */
		int r = t3_rest_of_iteration(s);
		if (r != SEQ_CONTINUE)
			return r;
	}
	eff(4);
	return finish(&s->pc, PT_EXITED);
}

static int t3_ref(struct t3 *s)
{
	int r;
	switch (s->pc) {
	case T3_START:
		eff(1);
		s->i = 0;
		return t3_loop(s);
	case T3_SP:
		r = t3_rest_of_iteration(s);
		return r != SEQ_CONTINUE ? r : t3_loop(s);
	case T3_Y:
		eff(5);
		s->ch.mode++;
		s->i++;
		return t3_loop(s);
	}
	return -1;
}

static void t3_learn(void)
{
	struct t3 c = { .pt = 0xffff, .ch = { .pt = 0xffff, .mode = 2 } };
	env_all(1);
	PT_INIT(&c.pt);
	t3_lbl[T3_START] = c.pt;
	learn_ok = learn_ok && t3(&c) == PT_YIELDED; /* the child's yield */
	t3_lbl[T3_SP] = c.pt;
	env_k = 0;
	learn_ok = learn_ok && t3(&c) == PT_YIELDED; /* child fails, parent's own yield */
	t3_lbl[T3_Y] = c.pt;
}

/* ======================================================================================================
 * T4: PT_EXIT_ON, PT_FAIL_ON, PT_SPAWN_AND_CHECK, PT_EXIT, PT_FAIL, PT_YIELD, PT_WAIT, PT_END.
 */
struct t4 {
	pt_t pt;
	uint8_t pc;
	uint8_t a, b;
	struct leaf ch;
};
enum { T4_START, T4_Y, T4_SP, T4_W, T4_N };
static pt_t t4_lbl[T4_N];

static pt_state_t t4(struct t4 *c)
{
	PT_BEGIN(&c->pt);
	eff(1);
	PT_EXIT_ON(c->a == 1);
	eff(2);
	PT_FAIL_ON(c->a == 2);
	eff(3);
	PT_YIELD();
	eff(4);
	PT_SPAWN_AND_CHECK(&c->ch.pt, leaf(&c->ch));
	eff(5);
	if (c->b == 1) {
		eff(6);
		PT_EXIT();
	}
	if (c->b == 2) {
		eff(7);
		PT_FAIL();
	}
	PT_WAIT();
	eff(8);
	PT_END();
}

static int t4_at_spawn(struct t4 *s)
{
	int r = leaf_ref(&s->ch);
	if (r == PT_YIELDED || r == PT_WAITING)
		return block_at(&s->pc, T4_SP, r);
	if (r == PT_FAILED) /* the child's failure becomes the parent's */
		return finish(&s->pc, PT_FAILED);
	eff(5);
	if (s->b == 1) {
		eff(6);
		return finish(&s->pc, PT_EXITED);
	}
	if (s->b == 2) {
		eff(7);
		return finish(&s->pc, PT_FAILED);
	}
	return block_at(&s->pc, T4_W, PT_WAITING);
}

static int t4_ref(struct t4 *s)
{
	switch (s->pc) {
	case T4_START:
		eff(1);
		if (s->a == 1)
			return finish(&s->pc, PT_EXITED);
		eff(2);
		if (s->a == 2)
			return finish(&s->pc, PT_FAILED);
		eff(3);
		return block_at(&s->pc, T4_Y, PT_YIELDED);
	case T4_Y:
		eff(4);
		s->ch.pc = L_START;
		return t4_at_spawn(s);
	case T4_SP:
		return t4_at_spawn(s);
	case T4_W:
		eff(8);
		return finish(&s->pc, PT_EXITED);
	}
	return -1;
}

static void t4_learn(void)
{
	struct t4 c = { .pt = 0xffff, .ch = { .pt = 0xffff, .mode = 0 } };
	env_all(1);
	PT_INIT(&c.pt);
	t4_lbl[T4_START] = c.pt;
	learn_ok = learn_ok && t4(&c) == PT_YIELDED;
	t4_lbl[T4_Y] = c.pt;
	learn_ok = learn_ok && t4(&c) == PT_YIELDED; /* the child's yield */
	t4_lbl[T4_SP] = c.pt;
	learn_ok = learn_ok && t4(&c) == PT_WAITING; /* child exits, parent reaches its wait */
	t4_lbl[T4_W] = c.pt;
}

/* ======================================================================================================
 * CALLEE: child of T5 (PT_CALL) and a template of its own: PT_YIELD in a loop, PT_WAIT, PT_WAIT_UNTIL whose
 * condition changes a persistent variable (true at the third evaluation), PT_FAIL_ON.
 */
struct callee {
	pt_t pt;
	uint8_t pc;
	uint8_t mode, i, k;
};
enum { C_START, C_Y, C_W, C_WU, C_N };
static pt_t callee_lbl[C_N];

static pt_state_t callee(struct callee *c)
{
	PT_BEGIN(&c->pt);
	eff(60);
	for (c->i = 0; c->i < 2; c->i++) {
		PT_YIELD();
		eff(61 + c->i);
	}
	PT_WAIT();
	eff(65);
	c->k = 0;
	PT_WAIT_UNTIL(++c->k >= 3);
	eff(66 + c->k);
	PT_FAIL_ON(c->mode == 2);
	eff(64);
	PT_END();
}

static int callee_at_wait_until(struct callee *s)
{
	if (!(++s->k >= 3))
		return block_at(&s->pc, C_WU, PT_WAITING);
	eff(66 + s->k);
	if (s->mode == 2)
		return finish(&s->pc, PT_FAILED);
	eff(64);
	return finish(&s->pc, PT_EXITED);
}

static int callee_loop(struct callee *s)
{
	if (s->i < 2)
		return block_at(&s->pc, C_Y, PT_YIELDED);
	return block_at(&s->pc, C_W, PT_WAITING);
}

static int callee_ref(struct callee *s)
{
	switch (s->pc) {
	case C_START:
		eff(60);
		s->i = 0;
		return callee_loop(s);
	case C_Y:
		eff(61 + s->i);
		s->i++;
		return callee_loop(s);
	case C_W:
		eff(65);
		s->k = 0;
		return callee_at_wait_until(s);
	case C_WU:
		return callee_at_wait_until(s);
	}
	return -1;
}

/* the same body as one sequential program with no cuts at all: what PT_CALL means */
static int callee_run_to_completion(struct callee *s)
{
	eff(60);
	for (s->i = 0; s->i < 2; s->i++)
		eff(61 + s->i);
	eff(65);
	s->k = 0;
	while (!(++s->k >= 3))
		;
	eff(66 + s->k);
	if (s->mode == 2)
		return finish(&s->pc, PT_FAILED);
	eff(64);
	return finish(&s->pc, PT_EXITED);
}

static void callee_learn(void)
{
	struct callee c = { .pt = 0xffff };
	PT_INIT(&c.pt);
	callee_lbl[C_START] = c.pt;
	learn_ok = learn_ok && callee(&c) == PT_YIELDED;
	callee_lbl[C_Y] = c.pt;
	learn_ok = learn_ok && callee(&c) == PT_YIELDED;
	learn_ok = learn_ok && callee(&c) == PT_WAITING;
	callee_lbl[C_W] = c.pt;
	learn_ok = learn_ok && callee(&c) == PT_WAITING;
	callee_lbl[C_WU] = c.pt;
}

static bool callee_vars_eq(const struct callee *r, const struct callee *s)
{
	return r->mode == s->mode && r->i == s->i && r->k == s->k;
}

/* ======================================================================================================
 * T5: PT_CALL inside a loop (the child is run from its beginning to completion each time, the caller does
 * not block), between two blocking points of the caller.
 */
struct t5 {
	pt_t pt;
	uint8_t pc;
	uint8_t i;
	struct callee ch;
};
enum { T5_START, T5_Y, T5_W, T5_N };
static pt_t t5_lbl[T5_N];

static pt_state_t t5(struct t5 *c)
{
	PT_BEGIN(&c->pt);
	eff(1);
	PT_YIELD();
	eff(2);
	for (c->i = 0; c->i < 2; c->i++) {
		PT_CALL(&c->ch.pt, callee(&c->ch));
		eff(10 + c->i);
		c->ch.mode++;
	}
	PT_WAIT();
	eff(3);
	PT_END();
}

static int t5_ref(struct t5 *s)
{
	switch (s->pc) {
	case T5_START:
		eff(1);
		return block_at(&s->pc, T5_Y, PT_YIELDED);
	case T5_Y:
		eff(2);
		for (s->i = 0; s->i < 2; s->i++) {
			(void)callee_run_to_completion(&s->ch);
			eff(10 + s->i);
			s->ch.mode++;
		}
		return block_at(&s->pc, T5_W, PT_WAITING);
	case T5_W:
		eff(3);
		return finish(&s->pc, PT_EXITED);
	}
	return -1;
}

static void t5_learn(void)
{
	struct t5 c = { .pt = 0xffff, .ch = { .pt = 0xffff } };
	PT_INIT(&c.pt);
	t5_lbl[T5_START] = c.pt;
	learn_ok = learn_ok && t5(&c) == PT_YIELDED;
	t5_lbl[T5_Y] = c.pt;
	learn_ok = learn_ok && t5(&c) == PT_WAITING;
	t5_lbl[T5_W] = c.pt;
}

/* ======================================================================================================
 * T6: two-level spawn.  TOP spawns MID, MID spawns LEAF inside a loop with PT_SPAWN_AND_CHECK and has a
 * blocking point of its own; TOP consults PT_CHILD_OK.
 */
struct mid {
	pt_t pt;
	uint8_t pc;
	uint8_t i;
	struct leaf ch;
};
enum { M_START, M_SP, M_Y, M_N };
static pt_t mid_lbl[M_N];

static pt_state_t mid(struct mid *c)
{
	PT_BEGIN(&c->pt);
	eff(70);
	for (c->i = 0; c->i < 2; c->i++) {
		PT_SPAWN_AND_CHECK(&c->ch.pt, leaf(&c->ch));
		eff(71 + c->i);
		PT_YIELD();
		c->ch.mode++;
	}
	eff(75);
	PT_END();
}

static int mid_at_spawn(struct mid *s)
{
	int r = leaf_ref(&s->ch);
	if (r == PT_YIELDED || r == PT_WAITING)
		return block_at(&s->pc, M_SP, r);
	if (r == PT_FAILED)
		return finish(&s->pc, PT_FAILED);
	eff(71 + s->i);
	return block_at(&s->pc, M_Y, PT_YIELDED);
}

static int mid_loop(struct mid *s)
{
	if (s->i < 2) {
		s->ch.pc = L_START;
		return mid_at_spawn(s);
	}
	eff(75);
	return finish(&s->pc, PT_EXITED);
}

static int mid_ref(struct mid *s)
{
	switch (s->pc) {
	case M_START:
		eff(70);
		s->i = 0;
		return mid_loop(s);
	case M_SP:
		return mid_at_spawn(s);
	case M_Y:
		s->ch.mode++;
		s->i++;
		return mid_loop(s);
	}
	return -1;
}

static void mid_learn(void)
{
	struct mid c = { .pt = 0xffff, .ch = { .pt = 0xffff, .mode = 0 } };
	env_all(1);
	PT_INIT(&c.pt);
	mid_lbl[M_START] = c.pt;
	learn_ok = learn_ok && mid(&c) == PT_YIELDED; /* the grandchild's yield */
	mid_lbl[M_SP] = c.pt;
	learn_ok = learn_ok && mid(&c) == PT_YIELDED; /* grandchild exits, mid's own yield */
	mid_lbl[M_Y] = c.pt;
}

struct t6 {
	pt_t pt;
	uint8_t pc;
	struct mid m;
};
enum { T6_START, T6_SP, T6_W, T6_N };
static pt_t t6_lbl[T6_N];

static pt_state_t t6(struct t6 *c)
{
	PT_BEGIN(&c->pt);
	eff(1);
	PT_SPAWN(&c->m.pt, mid(&c->m));
	if (PT_CHILD_OK())
		eff(2);
	else
		eff(3);
	PT_WAIT();
	eff(4);
	PT_END();
}

static int t6_at_spawn(struct t6 *s)
{
	int r = mid_ref(&s->m);
	if (r == PT_YIELDED || r == PT_WAITING)
		return block_at(&s->pc, T6_SP, r);
	if (r != PT_FAILED)
		eff(2);
	else
		eff(3);
	return block_at(&s->pc, T6_W, PT_WAITING);
}

static int t6_ref(struct t6 *s)
{
	switch (s->pc) {
	case T6_START:
		eff(1);
		s->m.pc = M_START;
		return t6_at_spawn(s);
	case T6_SP:
		return t6_at_spawn(s);
	case T6_W:
		eff(4);
		return finish(&s->pc, PT_EXITED);
	}
	return -1;
}

static void t6_learn(void)
{
	struct t6 c = { .pt = 0xffff, .m = { .pt = 0xffff, .ch = { .pt = 0xffff, .mode = 1 } } };
	env_all(1);
	PT_INIT(&c.pt);
	t6_lbl[T6_START] = c.pt;
	learn_ok = learn_ok && t6(&c) == PT_YIELDED; /* grandchild exits at once, mid's own yield is relayed */
	t6_lbl[T6_SP] = c.pt;
	c.m.ch.mode = 1; /* mid increments it: the next grandchild yields, then fails; mid fails, top reaches its wait */
	learn_ok = learn_ok && t6(&c) == PT_YIELDED;
	learn_ok = learn_ok && t6(&c) == PT_WAITING;
	t6_lbl[T6_W] = c.pt;
}

/* ======================================================================================================
 * T7: PT_BEGIN_FIBRE (fibre.h): the saved state is the priv field of the fibre descriptor; the function has
 * the fibre entry point signature.  PT_WAIT_UNTIL inside a loop, PT_YIELD after it.
 */
struct t7 {
	fibre_t fibre;
	uint8_t pc;
	uint8_t i;
};
enum { T7_START, T7_WU, T7_Y, T7_N };
static pt_t t7_lbl[T7_N];

static int t7(fibre_t *f)
{
	struct t7 *c = (struct t7 *)f; /* the descriptor is the first member */
	PT_BEGIN_FIBRE(f);
	eff(1);
	for (c->i = 0; c->i < 4; c->i++) {
		PT_WAIT_UNTIL(poll(10 + c->i));
		eff(2);
	}
	PT_YIELD();
	eff(3);
	PT_END();
}

/* at the wait of iteration i: the condition is tested whatever i is - the test of the loop comes afterwards */
static int t7_at_wait_until(struct t7 *s)
{
	do {
		if (!poll(10 + s->i))
			return block_at(&s->pc, T7_WU, PT_WAITING);
		eff(2);
		s->i++;
	} while (s->i < 4);
	return block_at(&s->pc, T7_Y, PT_YIELDED);
}

static int t7_ref(struct t7 *s)
{
	switch (s->pc) {
	case T7_START:
		eff(1);
		s->i = 0;
		return t7_at_wait_until(s); /* 0 < 4: the first iteration is entered */
	case T7_WU: /* back at the test of the condition, in the same iteration */
		return t7_at_wait_until(s);
	case T7_Y:
		eff(3);
		return finish(&s->pc, PT_EXITED);
	}
	return -1;
}

static void t7_learn(void)
{
	struct t7 c;
	memset(&c, 0xff, sizeof(c));
	env_all(0);
	PT_INIT(&c.fibre.priv);
	t7_lbl[T7_START] = c.fibre.priv;
	learn_ok = learn_ok && t7(&c.fibre) == PT_WAITING;
	t7_lbl[T7_WU] = c.fibre.priv;
	env_all(1);
	learn_ok = learn_ok && t7(&c.fibre) == PT_YIELDED;
	t7_lbl[T7_Y] = c.fibre.priv;
}

/* ================================================================================================ harnesses */

#define IN_FIELDS(S, A)                                                                                      \
	A(uint8_t, env, 4) S(uint8_t, pc0) S(uint8_t, pc1) S(uint8_t, pc2)                 \
	S(uint16_t, stale1) S(uint16_t, stale2) S(uint8_t, sel) S(uint8_t, n) S(uint8_t, i) S(uint8_t, j)    \
	S(uint8_t, a) S(uint8_t, b) S(uint8_t, c_mode) S(uint8_t, c_i) S(uint8_t, c_k) S(uint8_t, m_i)       \
	S(uint16_t, f_state) S(uint32_t, f_duetime)
VERIF_INPUTS(IN_FIELDS)

struct outcome {
	int code;
	uint32_t neff, polls;
	struct trace trace;
};

static const struct trace no_effects;

static bool same_effects(const struct outcome *a, const struct outcome *b)
{
	bool same = a->neff == b->neff && a->neff <= NTRACE && a->polls == b->polls;
	for (unsigned k = 0; k < NTRACE; k++)
		same = same && a->trace.tag[k] == b->trace.tag[k];
	return same;
}

/* one invocation with an empty effect log and the common environment */
#define RUN(o, call)                                                                                         \
	do {                                                                                                 \
		trace = no_effects;                                                                          \
		neff = 0;                                                                                    \
		env[0] = IN.env[0], env[1] = IN.env[1], env[2] = IN.env[2], env[3] = IN.env[3];              \
		env_k = 0;                                                                                   \
		(o).code = (call);                                                                           \
		(o).trace = trace;                                                                           \
		(o).neff = neff;                                                                             \
		(o).polls = env_k;                                                                           \
	} while (0)

#define BLOCKED(code) ((code) == PT_YIELDED || (code) == PT_WAITING)
#define ENDED(code) ((code) == PT_EXITED || (code) == PT_FAILED)

/* the four clauses of the step contract; `resume` is evaluated only if the reference has not ended */
#define STEP_CONTRACT(T, re, sp, ref_pc, vars_eq, resume)                                                    \
	do {                                                                                                 \
		VASSERT(learn_ok, "C08 " T " set-up: the scripted run from PT_INIT stops once at every "     \
				  "blocking point with the expected return code");                           \
		VASSERT((BLOCKED((sp).code) && (ref_pc) != PC_DONE) || (ENDED((sp).code) && (ref_pc) == PC_DONE), \
			"C08 " T " reference: returns yielded or waiting exactly at its blocking points, "   \
			"exited or failed otherwise");                                                        \
		VASSERT((re).code == (sp).code,                                                              \
			"C08 " T ": the invocation returns yielded or waiting at blocking points and exited " \
			"or failed at PT_END, PT_EXIT(_ON), PT_FAIL(_ON) exactly as the sequential program "  \
			"cut at its blocking points");                                                        \
		VASSERT(same_effects(&(re), &(sp)),                                                          \
			"C08 " T ": the invocation continues immediately after the point where the previous " \
			"one returned and performs the sequential program's effects, in order, up to the next " \
			"blocking point");                                                                    \
		VASSERT(vars_eq, "C08 " T ": persistent variables after the invocation are those of the "    \
				 "sequential program");                                                      \
		VASSERT((ref_pc) == PC_DONE || (resume),                                                     \
			"C08 " T ": the saved resume point is the blocking point where the sequential "      \
			"program stopped (the next invocation continues from there)");                        \
	} while (0)

void h_leaf(void)
{
	VERIF_LOAD_INPUTS();
	VASSUME(IN.pc0 < L_N);
	learn_ok = true;
	leaf_learn();
	VASSERT(labels_distinct(leaf_lbl, L_N), "C08 LEAF set-up: every blocking point has its own non-zero resume label and PT_INIT leaves 0");
	struct leaf R, S;
	leaf_state(&R, IN.pc0, 0, IN.c_mode);
	S = R;
	struct outcome re, sp;
	RUN(re, leaf(&R));
	RUN(sp, leaf_ref(&S));
	STEP_CONTRACT("LEAF", re, sp, S.pc, leaf_vars_eq(&R, &S), leaf_resume_ok(&R, &S));
	VASSERT(IN.pc0 != L_WU || (re.polls == 1 && (re.code == PT_WAITING) == !(IN.env[0] & 1)),
		"C08 LEAF: PT_WAIT_UNTIL re-evaluates its condition on every resumption (once, and blocks again iff it is false)");
	VASSERT(IN.pc0 != L_Y || re.code != PT_YIELDED, "C08 LEAF: PT_YIELD blocks exactly once");
	VCOVER(IN.pc0 == L_START && re.code == PT_EXITED, "exit before the first blocking point");
	VCOVER(IN.pc0 == L_WU && re.code == PT_FAILED, "failure after the wait");
	VCOVER(IN.pc0 == L_WU && re.code == PT_WAITING, "condition still false");
	VCOVER(IN.pc0 == L_Y && re.code == PT_EXITED, "from the yield to the end");
}

void h_t1(void)
{
	VERIF_LOAD_INPUTS();
	VASSUME(IN.pc0 < T1_N);
	learn_ok = true;
	t1_learn();
	VASSERT(labels_distinct(t1_lbl, T1_N), "C08 T1 set-up: every blocking point has its own non-zero resume label and PT_INIT leaves 0");
	struct t1 R = { .pt = t1_lbl[IN.pc0], .pc = IN.pc0, .sel = IN.sel, .i = IN.i }, S = R;
	struct outcome re, sp;
	RUN(re, t1(&R));
	RUN(sp, t1_ref(&S));
	STEP_CONTRACT("T1", re, sp, S.pc, R.sel == S.sel && R.i == S.i, R.pt == t1_lbl[S.pc]);
	VASSERT(IN.pc0 != T1_WU || (re.polls == 1 && (re.code == PT_WAITING) == !(IN.env[0] & 1)),
		"C08 T1: PT_WAIT_UNTIL re-evaluates its condition on every resumption (once, and blocks again iff it is false)");
	VASSERT(IN.pc0 != T1_Y || IN.i != 1 || (re.code == PT_YIELDED && R.i == 3 && re.neff == 3),
		"C08 T1: resuming after the yield of iteration 1 runs the rest of it, all of iteration 2 and stops at the yield of iteration 3");
	VCOVER(IN.pc0 == T1_Y && re.code == PT_YIELDED, "yield to yield round the loop");
	VCOVER(IN.pc0 == T1_Y && re.code == PT_EXITED, "last iteration");
	VCOVER(IN.pc0 == T1_Y && IN.i == 200, "unreachable loop index is covered too");
	VCOVER(IN.pc0 == T1_WU && re.code == PT_WAITING, "wait again");
	VCOVER(IN.pc0 == T1_WU && re.code == PT_EXITED, "wait over");
	VCOVER(IN.pc0 == T1_START && re.code == PT_WAITING, "start into the other arm");
}

void h_t2(void)
{
	VERIF_LOAD_INPUTS();
	VASSUME(IN.pc0 < T2_N);
	learn_ok = true;
	t2_learn();
	VASSERT(labels_distinct(t2_lbl, T2_N), "C08 T2 set-up: every blocking point has its own non-zero resume label and PT_INIT leaves 0");
	struct t2 R = { .pt = t2_lbl[IN.pc0], .pc = IN.pc0, .n = IN.n, .i = IN.i, .j = IN.j }, S = R;
	struct outcome re, sp;
	RUN(re, t2(&R));
	RUN(sp, t2_ref(&S));
	STEP_CONTRACT("T2", re, sp, S.pc, R.n == S.n && R.i == S.i && R.j == S.j, R.pt == t2_lbl[S.pc]);
	VASSERT(IN.pc0 != T2_W1 || (re.code == PT_WAITING && re.neff == 0 && R.pt == t2_lbl[T2_W2]),
		"C08 T2: the second of two PT_WAITs in a row blocks too (PT_WAIT blocks exactly once, each)");
	VASSERT(IN.pc0 != T2_W2 || re.neff >= 2, "C08 T2: PT_WAIT blocks exactly once: the invocation after the second wait goes on");
	VASSERT(IN.pc0 != T2_W3 || IN.j != 0 || (re.code == PT_WAITING && R.pt == t2_lbl[T2_W3] && re.neff == 1),
		"C08 T2: a PT_WAIT reached again round its loop blocks again");
	VCOVER(IN.pc0 == T2_W3 && R.pt == t2_lbl[T2_W3], "inner wait to inner wait");
	VCOVER(IN.pc0 == T2_W3 && R.pt == t2_lbl[T2_W4], "inner wait to outer wait");
	VCOVER(IN.pc0 == T2_W4 && R.pt == t2_lbl[T2_W3], "outer wait to inner wait of the next iteration");
	VCOVER(IN.pc0 == T2_W4 && re.code == PT_EXITED, "outer loop over");
	VCOVER(IN.pc0 == T2_W2 && re.code == PT_EXITED, "zero iterations");
	VCOVER(IN.pc0 == T2_W4 && IN.i == 254 && IN.n == 255, "large symbolic bound");
}

static void t_leaf_pre(uint8_t parent_at_spawn)
{
	/* the child is at one of its points while the parent sits in the spawn, stale otherwise */
	if (parent_at_spawn)
		VASSUME(IN.pc1 < L_N);
	else
		VASSUME(IN.pc1 == PC_STALE);
}

void h_t3(void)
{
	VERIF_LOAD_INPUTS();
	VASSUME(IN.pc0 < T3_N);
	t_leaf_pre(IN.pc0 == T3_SP);
	learn_ok = true;
	leaf_learn();
	t3_learn();
	VASSERT(labels_distinct(t3_lbl, T3_N) && labels_distinct(leaf_lbl, L_N), "C08 T3 set-up: every blocking point has its own non-zero resume label and PT_INIT leaves 0");
	struct t3 R = { .pt = t3_lbl[IN.pc0], .pc = IN.pc0, .i = IN.i }, S;
	leaf_state(&R.ch, IN.pc1, IN.stale1, IN.c_mode);
	S = R;
	struct outcome re, sp;
	RUN(re, t3(&R));
	RUN(sp, t3_ref(&S));
	STEP_CONTRACT("T3", re, sp, S.pc, R.i == S.i && leaf_vars_eq(&R.ch, &S.ch),
		      R.pt == t3_lbl[S.pc] && (S.pc != T3_SP || leaf_resume_ok(&R.ch, &S.ch)));
	VASSERT(!(IN.pc0 == T3_SP && IN.pc1 == L_WU && !(IN.env[0] & 1)) || (re.code == PT_WAITING && re.neff == 1),
		"C08 T3: PT_SPAWN relays the child's wait upward unchanged");
	VASSERT(!(IN.pc0 == T3_Y && IN.i == 0 && IN.c_mode == 0) ||
			(re.code == PT_YIELDED && re.neff == 7 && R.i == 2 && R.pt == t3_lbl[T3_SP] && R.ch.pt == leaf_lbl[L_Y]),
		"C08 T3: PT_SPAWN starts the child from its beginning each time it is reached (a child that exits at once, then one that yields, in one invocation)");
	VCOVER(IN.pc0 == T3_SP && IN.pc1 == L_WU && re.code == PT_YIELDED && R.pt == t3_lbl[T3_SP],
	       "child exits, next iteration spawns it afresh and relays its yield");
	VCOVER(IN.pc0 == T3_SP && R.pt == t3_lbl[T3_Y], "child fails, parent takes the failure arm");
	VCOVER(IN.pc0 == T3_SP && re.code == PT_EXITED, "last child exits, parent exits");
	VCOVER(IN.pc0 == T3_Y && IN.stale1 == leaf_lbl[L_WU] && re.code == PT_YIELDED, "stale child state equal to a real label");
	VCOVER(IN.pc0 == T3_START && IN.c_mode == 1 && re.code == PT_YIELDED, "first child never blocks, the second yields");
	VCOVER(IN.pc0 == T3_SP && IN.pc1 == L_Y && re.code == PT_WAITING, "child's wait relayed");
}

void h_t4(void)
{
	VERIF_LOAD_INPUTS();
	VASSUME(IN.pc0 < T4_N);
	t_leaf_pre(IN.pc0 == T4_SP);
	learn_ok = true;
	leaf_learn();
	t4_learn();
	VASSERT(labels_distinct(t4_lbl, T4_N) && labels_distinct(leaf_lbl, L_N), "C08 T4 set-up: every blocking point has its own non-zero resume label and PT_INIT leaves 0");
	struct t4 R = { .pt = t4_lbl[IN.pc0], .pc = IN.pc0, .a = IN.a, .b = IN.b }, S;
	leaf_state(&R.ch, IN.pc1, IN.stale1, IN.c_mode);
	S = R;
	struct outcome re, sp;
	RUN(re, t4(&R));
	RUN(sp, t4_ref(&S));
	STEP_CONTRACT("T4", re, sp, S.pc, R.a == S.a && R.b == S.b && leaf_vars_eq(&R.ch, &S.ch),
		      R.pt == t4_lbl[S.pc] && (S.pc != T4_SP || leaf_resume_ok(&R.ch, &S.ch)));
	VASSERT(!(IN.pc0 == T4_SP && IN.pc1 == L_WU && (IN.env[0] & 1)) || IN.b == 2 || ((re.code == PT_FAILED) == (IN.c_mode == 2)),
		"C08 T4: PT_SPAWN_AND_CHECK reflects the child's result (fails iff the child failed)");
	VASSERT(IN.pc0 != T4_START || IN.a != 1 || (re.code == PT_EXITED && re.neff == 1), "C08 T4: PT_EXIT_ON exits");
	VASSERT(IN.pc0 != T4_START || IN.a != 2 || (re.code == PT_FAILED && re.neff == 2), "C08 T4: PT_FAIL_ON fails");
	VCOVER(IN.pc0 == T4_SP && re.code == PT_FAILED && IN.c_mode == 2, "child failure propagated");
	VCOVER(IN.pc0 == T4_SP && re.code == PT_FAILED && IN.c_mode != 2, "PT_FAIL");
	VCOVER(IN.pc0 == T4_SP && re.code == PT_EXITED, "PT_EXIT");
	VCOVER(IN.pc0 == T4_SP && re.code == PT_WAITING && R.pt == t4_lbl[T4_W], "child exits, parent waits");
	VCOVER(IN.pc0 == T4_Y && re.code == PT_WAITING && R.pt == t4_lbl[T4_W], "child never blocks");
	VCOVER(IN.pc0 == T4_W && re.code == PT_EXITED, "PT_END");
}

void h_callee(void)
{
	VERIF_LOAD_INPUTS();
	VASSUME(IN.pc0 < C_N);
	learn_ok = true;
	callee_learn();
	VASSERT(labels_distinct(callee_lbl, C_N), "C08 CALLEE set-up: every blocking point has its own non-zero resume label and PT_INIT leaves 0");
	struct callee R = { .pt = callee_lbl[IN.pc0], .pc = IN.pc0, .mode = IN.c_mode, .i = IN.c_i, .k = IN.c_k }, S = R;
	struct outcome re, sp;
	RUN(re, callee(&R));
	RUN(sp, callee_ref(&S));
	STEP_CONTRACT("CALLEE", re, sp, S.pc, callee_vars_eq(&R, &S), R.pt == callee_lbl[S.pc]);
	VASSERT(IN.pc0 != C_WU || R.k == (uint8_t)(IN.c_k + 1),
		"C08 CALLEE: PT_WAIT_UNTIL re-evaluates its condition on every resumption (exactly once: its side effect happens once)");
	VCOVER(IN.pc0 == C_Y && R.pt == callee_lbl[C_Y], "yield to yield");
	VCOVER(IN.pc0 == C_Y && R.pt == callee_lbl[C_W], "yield to wait");
	VCOVER(IN.pc0 == C_WU && re.code == PT_FAILED, "fail");
	VCOVER(IN.pc0 == C_WU && re.code == PT_WAITING && IN.c_k == 255, "counter wraps");
	VCOVER(IN.pc0 == C_W && re.code == PT_WAITING, "first evaluation false");
}

void h_t5(void)
{
	VERIF_LOAD_INPUTS();
	VASSUME(IN.pc0 < T5_N);
	learn_ok = true;
	t5_learn();
	VASSERT(labels_distinct(t5_lbl, T5_N), "C08 T5 set-up: every blocking point has its own non-zero resume label and PT_INIT leaves 0");
	/* the callee is never active between invocations of the caller: its saved state is always stale */
	struct t5 R = { .pt = t5_lbl[IN.pc0], .pc = IN.pc0, .i = IN.i,
			.ch = { .pt = IN.stale1, .pc = PC_STALE, .mode = IN.c_mode, .i = IN.c_i, .k = IN.c_k } }, S = R;
	struct outcome re, sp;
	RUN(re, t5(&R));
	RUN(sp, t5_ref(&S));
	STEP_CONTRACT("T5", re, sp, S.pc, R.i == S.i && callee_vars_eq(&R.ch, &S.ch), R.pt == t5_lbl[S.pc]);
	VASSERT(IN.pc0 != T5_Y || (re.code == PT_WAITING && re.neff == 1 + 2 * 6 + 2 - (IN.c_mode == 2) - (IN.c_mode == 1)),
		"C08 T5: PT_CALL runs the child from its beginning to its exit or failure each time it is reached, without blocking the caller");
	VCOVER(IN.pc0 == T5_Y && IN.c_mode == 2, "first callee fails");
	VCOVER(IN.pc0 == T5_Y && IN.c_mode == 1, "second callee fails");
	VCOVER(IN.pc0 == T5_Y && IN.stale1 == 0x1234, "stale callee state");
	VCOVER(IN.pc0 == T5_W && re.code == PT_EXITED, "end");
}

void h_mid(void)
{
	VERIF_LOAD_INPUTS();
	VASSUME(IN.pc0 < M_N);
	t_leaf_pre(IN.pc0 == M_SP);
	learn_ok = true;
	leaf_learn();
	mid_learn();
	VASSERT(labels_distinct(mid_lbl, M_N) && labels_distinct(leaf_lbl, L_N), "C08 MID set-up: every blocking point has its own non-zero resume label and PT_INIT leaves 0");
	struct mid R = { .pt = mid_lbl[IN.pc0], .pc = IN.pc0, .i = IN.m_i }, S;
	leaf_state(&R.ch, IN.pc1, IN.stale1, IN.c_mode);
	S = R;
	struct outcome re, sp;
	RUN(re, mid(&R));
	RUN(sp, mid_ref(&S));
	STEP_CONTRACT("MID", re, sp, S.pc, R.i == S.i && leaf_vars_eq(&R.ch, &S.ch),
		      R.pt == mid_lbl[S.pc] && (S.pc != M_SP || leaf_resume_ok(&R.ch, &S.ch)));
	VCOVER(IN.pc0 == M_Y && R.pt == mid_lbl[M_SP], "own yield to the child's yield");
	VCOVER(IN.pc0 == M_Y && R.pt == mid_lbl[M_Y], "own yield, child never blocks, own yield");
	VCOVER(IN.pc0 == M_SP && re.code == PT_FAILED, "child fails");
	VCOVER(IN.pc0 == M_Y && re.code == PT_EXITED, "loop over");
}

void h_t6(void)
{
	VERIF_LOAD_INPUTS();
	VASSUME(IN.pc0 < T6_N);
	/* top in its spawn: mid at one of its points; mid in its spawn: leaf at one of its points; stale otherwise */
	if (IN.pc0 == T6_SP)
		VASSUME(IN.pc1 < M_N);
	else
		VASSUME(IN.pc1 == PC_STALE);
	if (IN.pc1 == M_SP)
		VASSUME(IN.pc2 < L_N);
	else
		VASSUME(IN.pc2 == PC_STALE);
	learn_ok = true;
	leaf_learn();
	mid_learn();
	t6_learn();
	VASSERT(labels_distinct(t6_lbl, T6_N) && labels_distinct(mid_lbl, M_N) && labels_distinct(leaf_lbl, L_N),
		"C08 T6 set-up: every blocking point has its own non-zero resume label and PT_INIT leaves 0");
	struct t6 R = { .pt = t6_lbl[IN.pc0], .pc = IN.pc0 }, S;
	R.m.pc = IN.pc1;
	R.m.pt = IN.pc1 < M_N ? mid_lbl[IN.pc1] : IN.stale1;
	R.m.i = IN.m_i;
	leaf_state(&R.m.ch, IN.pc2, IN.stale2, IN.c_mode);
	S = R;
	struct outcome re, sp;
	RUN(re, t6(&R));
	RUN(sp, t6_ref(&S));
	STEP_CONTRACT("T6", re, sp, S.pc, R.m.i == S.m.i && leaf_vars_eq(&R.m.ch, &S.m.ch),
		      R.pt == t6_lbl[S.pc] &&
			      (S.pc != T6_SP || (S.m.pc < M_N && R.m.pt == mid_lbl[S.m.pc] &&
						 (S.m.pc != M_SP || leaf_resume_ok(&R.m.ch, &S.m.ch)))));
	VASSERT(!(IN.pc0 == T6_SP && IN.pc1 == M_SP && IN.pc2 == L_WU && !(IN.env[0] & 1)) || (re.code == PT_WAITING && re.neff == 1),
		"C08 T6: the grandchild's wait is relayed upward unchanged through two PT_SPAWNs");
	VCOVER(IN.pc0 == T6_SP && IN.pc1 == M_SP && IN.pc2 == L_WU && re.code == PT_WAITING && R.pt == t6_lbl[T6_W] && re.neff == 3,
	       "grandchild fails, mid fails, top sees the failure");
	VCOVER(IN.pc0 == T6_SP && IN.pc1 == M_Y && R.pt == t6_lbl[T6_W] && re.neff == 2, "mid exits, top sees success");
	VCOVER(IN.pc0 == T6_SP && IN.pc1 == M_Y && re.code == PT_YIELDED && R.m.pt == mid_lbl[M_SP], "mid spawns the grandchild afresh");
	VCOVER(IN.pc0 == T6_START && IN.stale1 == mid_lbl[M_Y] && IN.stale2 == leaf_lbl[L_WU], "stale states equal to real labels");
	VCOVER(IN.pc0 == T6_W && re.code == PT_EXITED, "end");
}

void h_t7(void)
{
	VERIF_LOAD_INPUTS();
	VASSUME(IN.pc0 < T7_N);
	learn_ok = true;
	t7_learn();
	VASSERT(labels_distinct(t7_lbl, T7_N), "C08 T7 set-up: every blocking point has its own non-zero resume label and PT_INIT leaves 0");
	struct t7 R, S;
	memset(&R, 0, sizeof(R));
	R.fibre.state = IN.f_state; /* the neighbours of priv in the descriptor are arbitrary */
	R.fibre.duetime = IN.f_duetime;
	R.fibre.priv = t7_lbl[IN.pc0];
	R.pc = IN.pc0;
	R.i = IN.i;
	S = R;
	struct outcome re, sp;
	RUN(re, t7(&R.fibre));
	RUN(sp, t7_ref(&S));
	STEP_CONTRACT("T7", re, sp, S.pc, R.i == S.i, R.fibre.priv == t7_lbl[S.pc]);
	VASSERT(R.fibre.fn == NULL && R.fibre.state == IN.f_state && R.fibre.duetime == IN.f_duetime && R.fibre.link.next == NULL,
		"C08 T7: PT_BEGIN_FIBRE keeps the resume point in the priv field and leaves the rest of the fibre descriptor alone");
	VCOVER(IN.pc0 == T7_WU && re.code == PT_WAITING && re.polls == 4, "three waits pass, the fourth blocks");
	VCOVER(IN.pc0 == T7_WU && re.code == PT_YIELDED, "loop over");
	VCOVER(IN.pc0 == T7_Y && re.code == PT_EXITED, "end");
}

VERIF_ENTRIES(E(h_leaf) E(h_t1) E(h_t2) E(h_t3) E(h_t4) E(h_callee) E(h_t5) E(h_mid) E(h_t6) E(h_t7))
