/*
 * C05 - ring buffer delivers each byte once, in order, for one producer and one consumer.
 * Real code: /repo/librfn/ringbuf.c compiled against the shadow <stdatomic.h> (DESIGN P6, P8).
 *
 * Thread-modular proof.  -DROLE_PRODUCER verifies ringbuf_put under arbitrary interference by the
 * consumer; -DROLE_CONSUMER verifies ringbuf_get / ringbuf_empty under arbitrary interference by the
 * producer.  Interference (verif_env) happens before every atomic operation and is the coarsest
 * one the other role's guarantee permits:
 *     consumer: moves readi forward, cyclically, anywhere in [readi, writei]; never writes the buffer
 *     producer: moves writei forward anywhere in [writei, readi-1]; may write any byte of the buffer
 *               that is not in the unread region [readi, writei)
 * Each role's own atomic steps are shown to stay inside its guarantee (verif_post).
 *
 * Ghost state (P8): one prophecy-chosen watched byte with state FUTURE(dist puts to go) /
 * INRING(idx) / DONE, a second watched byte for order, full_seen / empty_seen flags set by the loads.
 * Invariant RB_INV: readi, writei < buf_len; a watched byte that is INRING lies in the cyclic
 * interval [readi, writei) and its slot still holds its value; two INRING watched bytes keep their order.
 *
 * buf_len is symbolic: 2..MAXLEN (2^31-1 in both tiers; was 65536 in the quick tier until seed C05-3); indices anywhere, wrap included.
 */
#include <stdlib.h>
#include <string.h>
#include "verif.h"
#include "librfn/ringbuf.c"

#ifndef MAXLEN
#define MAXLEN 65536u
#endif

#define IN_FIELDS(S, A)                                                                          \
	S(uint32_t, len) S(uint32_t, readi) S(uint32_t, writei) S(uint8_t, d)                    \
	S(uint8_t, w_state) S(uint32_t, w_idx) S(uint8_t, w_val) S(uint32_t, w_dist)             \
	S(uint8_t, x_state) S(uint32_t, x_idx) S(uint8_t, x_val)                                 \
	A(uint32_t, env_idx, 6) A(uint8_t, env_flag, 6) A(uint8_t, env_val, 6) A(uint32_t, env_idx2, 6)           \
	A(uint8_t, env_val2, 6) A(uint32_t, env_idx3, 6)
VERIF_INPUTS(IN_FIELDS)

enum { W_FUTURE, W_INRING, W_DONE };

static ringbuf_t RB;
static uint8_t *BUF;
static unsigned L;

/* ghost */
static uint8_t w_state, w_val, x_state, x_val;
static unsigned w_idx, w_dist, x_idx;
static bool full_seen, empty_seen;
static unsigned env_calls;
static unsigned my_stores_writei, my_stores_readi;
static unsigned pub_old, pub_new;
static bool in_call;
static uint8_t put_value;
static unsigned get_consumed_idx;
static bool get_consumed;

/* x in the cyclic half-open interval [lo, hi) */
static bool in_cyc(unsigned x, unsigned lo, unsigned hi)
{
	return lo <= hi ? (lo <= x && x < hi) : (x >= lo || x < hi);
}
static unsigned nxt(unsigned i) { return i + 1 >= L ? 0 : i + 1; }
/* distance from lo to x going forward */
static unsigned fwd(unsigned lo, unsigned x) { return x >= lo ? x - lo : x + L - lo; }

static bool rb_inv(void)
{
	unsigned r = RB.readi.v, w = RB.writei.v;
	if (!(r < L && w < L && RB.buf_len == L && RB.bufp == BUF))
		return false;
	if (w_state == W_INRING && !(w_idx < L && in_cyc(w_idx, r, w) && BUF[w_idx] == w_val))
		return false;
	if (x_state == W_INRING && !(x_idx < L && in_cyc(x_idx, r, w) && BUF[x_idx] == x_val))
		return false;
	/* order: the second watched byte X was put after W */
	if (x_state == W_INRING && w_state == W_INRING && !(fwd(r, w_idx) < fwd(r, x_idx)))
		return false;
	if (x_state == W_INRING && w_state == W_FUTURE)
		return false;
	if (x_state == W_DONE && w_state != W_DONE)
		return false;
	return true;
}

/* ------------------------------------------------------------------ interference */
void verif_env(const void *obj, enum verif_op op, memory_order mo)
{
	VASSERT(rb_inv(), "C05 RG: the invariant holds at every atomic boundary of the verified thread (its plain accesses stay inside what it owns)");
	/* C07 premise 1: memory-order table for the ring buffer (role of the access decides) */
#ifdef ROLE_PRODUCER
	if (obj == &RB.writei && op == VOP_STORE)
		VASSERT(VERIF_MO_RELEASES(mo), "C07 the store that publishes writei (hands the written slot to the consumer) is at least release");
	if (obj == &RB.readi && op == VOP_LOAD)
		VASSERT(VERIF_MO_ACQUIRES(mo), "C07 the producer's load of readi (takes freed slots over from the consumer) is at least acquire");
#else
	if (obj == &RB.readi && op == VOP_STORE)
		VASSERT(VERIF_MO_RELEASES(mo), "C07 the store that publishes readi (hands the read slot back to the producer) is at least release");
	if (obj == &RB.writei && op == VOP_LOAD)
		VASSERT(VERIF_MO_ACQUIRES(mo), "C07 the consumer's load of writei (takes published slots over from the producer) is at least acquire");
#endif
	if (!in_call)
		return;
	unsigned k = env_calls < 6 ? env_calls : 5;
	env_calls++;
	unsigned r = RB.readi.v, w = RB.writei.v;
#ifdef ROLE_PRODUCER
	/* the consumer got some bytes: readi moves anywhere in [readi, writei] */
	unsigned nr = IN.env_idx[k];
	VASSUME(nr < L && (nr == r || in_cyc(nr, r, w) || nr == w));
	if (w_state == W_INRING && in_cyc(w_idx, r, nr))
		w_state = W_DONE;
	if (x_state == W_INRING && in_cyc(x_idx, r, nr))
		x_state = W_DONE;
	RB.readi.v = nr;
#else
	/* the producer put some bytes: writei moves anywhere in [writei, readi-1]; it may have written any byte
	 * outside the unread region - modelled by forgetting the whole buffer except the watched unread bytes */
	unsigned nw = IN.env_idx[k];
	unsigned lim = r == 0 ? L - 1 : r - 1;
	VASSUME(nw < L && (nw == w || in_cyc(nw, w, lim) || nw == lim));
#ifndef VERIF_NATIVE
	{
		uint8_t keep_w = w_state == W_INRING ? BUF[w_idx] : 0, keep_x = x_state == W_INRING ? BUF[x_idx] : 0;
		__CPROVER_havoc_object(BUF);
		if (w_state == W_INRING)
			BUF[w_idx] = keep_w;
		if (x_state == W_INRING)
			BUF[x_idx] = keep_x;
	}
#endif
	/* a watched byte still to come may have been among the newly published ones (W before X) */
	if (w_state == W_FUTURE && (IN.env_flag[k] & 1) && nw != w) {
		unsigned i = IN.env_idx2[k];
		VASSUME(i < L && in_cyc(i, w, nw));
		w_state = W_INRING;
		w_idx = i;
		w_val = IN.env_val[k];
		VBIND(BUF[i], w_val);
	}
	if (x_state == W_FUTURE && w_state != W_FUTURE && (IN.env_flag[k] & 2) && nw != w) {
		unsigned i = IN.env_idx3[k];
		VASSUME(i < L && in_cyc(i, w, nw) && !(w_state == W_INRING && i == w_idx));
		x_state = W_INRING;
		x_idx = i;
		x_val = IN.env_val2[k];
		VBIND(BUF[i], x_val);
	}
	RB.writei.v = nw;
#endif
	VASSUME(rb_inv());
}

/* ------------------------------------------------------------------ the verified thread's own atomic steps */
void verif_post(const void *obj, enum verif_op op, memory_order mo, unsigned long long oldv, unsigned long long newv)
{
	(void)mo;
	if (op == VOP_FENCE || op == VOP_SIGNAL_FENCE)
		return;
	VASSERT(op == VOP_LOAD || op == VOP_STORE, "C05 the ring buffer uses only loads and stores of its two indices");
#ifdef ROLE_PRODUCER
	if (op == VOP_STORE) {
		VASSERT(obj == &RB.writei, "C05 the producer stores only writei");
		my_stores_writei++;
		pub_old = (unsigned)oldv;
		pub_new = (unsigned)newv;
		VASSERT(newv == nxt((unsigned)oldv), "C05 a publish advances writei by exactly one slot, cyclically");
		VASSERT((unsigned)newv != RB.readi.v, "C05 a publish never makes writei catch up with readi (nothing unread is overwritten, the ring never looks empty when full)");
		VASSERT(BUF[(unsigned)oldv] == put_value, "C05 the payload byte is in place when writei is published");
		/* ghost: the byte just published */
		if (w_state == W_FUTURE) {
			if (w_dist == 0) {
				w_state = W_INRING;
				w_idx = (unsigned)oldv;
				w_val = put_value;
			} else {
				w_dist--;
			}
		}
	}
	if (op == VOP_LOAD && obj == &RB.readi && nxt(RB.writei.v) == (unsigned)newv)
		full_seen = true; /* buf_len-1 unread bytes at this instant */
#else
	if (op == VOP_STORE) {
		VASSERT(obj == &RB.readi, "C05 the consumer stores only readi");
		my_stores_readi++;
		VASSERT((unsigned)oldv != RB.writei.v, "C05 the consumer advances readi only when the ring is not empty");
		VASSERT(newv == nxt((unsigned)oldv), "C05 a get advances readi by exactly one slot, cyclically");
		get_consumed = true;
		get_consumed_idx = (unsigned)oldv;
		if (w_state == W_INRING && w_idx == (unsigned)oldv)
			w_state = W_DONE;
		if (x_state == W_INRING && x_idx == (unsigned)oldv)
			x_state = W_DONE;
	}
	if (op == VOP_LOAD && obj == &RB.writei && RB.readi.v == (unsigned)newv)
		empty_seen = true; /* empty at this instant */
#endif
	VASSERT(rb_inv(), "C05 RG: every atomic step of the verified thread re-establishes the invariant (guarantee)");
}

/* ------------------------------------------------------------------ arbitrary invariant state */
static void arbitrary_ring(void)
{
	VERIF_LOAD_INPUTS();
	L = IN.len;
	VASSUME(L >= 2 && L <= MAXLEN);
	BUF = malloc(L);
	VASSUME(BUF != NULL);
	memset(&RB, 0, sizeof(RB));
	RB.bufp = BUF;
	RB.buf_len = L;
	RB.readi.v = IN.readi;
	RB.writei.v = IN.writei;
	w_state = IN.w_state; w_idx = IN.w_idx; w_val = IN.w_val; w_dist = IN.w_dist;
	x_state = IN.x_state; x_idx = IN.x_idx; x_val = IN.x_val;
	VASSUME(w_state <= W_DONE && x_state <= W_DONE);
	VASSUME(IN.readi < L && IN.writei < L);
	if (w_state == W_INRING) {
		VASSUME(w_idx < L);
		VBIND(BUF[w_idx], w_val);
	}
	if (x_state == W_INRING) {
		VASSUME(x_idx < L);
		VBIND(BUF[x_idx], x_val);
	}
	VASSUME(rb_inv());
	full_seen = empty_seen = false;
	env_calls = 0;
	my_stores_writei = my_stores_readi = 0;
	get_consumed = false;
}

#ifdef ROLE_PRODUCER
void h_put(void)
{
	arbitrary_ring();
	put_value = IN.d;
	uint8_t w_state0 = w_state;
	unsigned w_dist0 = w_dist;
	in_call = true;
	bool ok = ringbuf_put(&RB, IN.d);
	in_call = false;
	VASSERT(rb_inv(), "C05 RG: the invariant holds when ringbuf_put returns");
	VASSERT(ok == (my_stores_writei == 1) && my_stores_writei <= 1, "C05 a successful put publishes exactly one byte, a failed put none");
	VASSERT(ok || full_seen, "C05 a put fails only if the buffer held buf_len-1 unread bytes at some instant during the call");
	if (ok && w_state0 == W_FUTURE && w_dist0 == 0)
		VASSERT(w_state == W_DONE || (w_state == W_INRING && w_val == IN.d), "C05 the byte of a successful put enters the ring with its value");
	VCOVER(ok && pub_new == 0, "publish wraps to index 0");
	VCOVER(!ok, "ring full");
	VCOVER(ok && env_calls >= 2 && RB.readi.v != IN.readi, "consumer ran during the put");
	VCOVER(L == MAXLEN, "largest buffer");
	VCOVER(L == 2 && ok, "smallest buffer");
}

/* ringbuf_putchar = while (!ringbuf_put()) ; verified modularly (P3) with ringbuf_put substituted by its contract (enforced on the
 * real body by h_put) and the retry loop closed by the loop-cut rule (P7): every entry of the loop body starts by calling
 * ringbuf_put, so the stub asserts the loop-head invariant and cuts the second iteration.  Anything else the loop body does
 * runs for real against the shadow atomics in the producer role (so a body that consumes or discards bytes breaks
 * "the producer stores only writei").  Termination needs consumer progress and is not claimed. */
static unsigned putchar_iters;
bool ringbuf_put_contract(ringbuf_t *rb, uint8_t d)
{
	VASSERT(rb == &RB, "C05 ringbuf_putchar passes its ring to ringbuf_put");
	VASSERT(d == put_value, "C05 ringbuf_putchar passes its byte to ringbuf_put unchanged");
	VASSERT(rb_inv() && my_stores_writei == 0 && my_stores_readi == 0,
		"C05 ringbuf_putchar: every retry starts with the invariant intact and nothing published or consumed by the producer");
	if (putchar_iters++ > 0)
		VASSUME(0); /* loop cut: the invariant was re-established at the back edge */
	/* contract of ringbuf_put (h_put): fails only when full was seen, otherwise publishes exactly this byte */
	unsigned r = RB.readi.v, w = RB.writei.v;
	bool ok = IN.env_flag[0] & 1;
	if (nxt(w) != r)
		ok = true; /* not full at the instant of the check: the put succeeds (a spurious failure is not permitted by the contract) */
	if (ok) {
		VASSUME(nxt(w) != r);
		BUF[w] = d;
		RB.writei.v = nxt(w);
		my_stores_writei++;
		if (w_state == W_FUTURE) {
			if (w_dist == 0) {
				w_state = W_INRING;
				w_idx = w;
				w_val = d;
			} else {
				w_dist--;
			}
		}
	}
	return ok;
}

void h_putchar(void)
{
	arbitrary_ring();
	put_value = IN.d;
	uint8_t w_state0 = w_state;
	unsigned w_dist0 = w_dist;
	putchar_iters = 0;
	in_call = true;
	ringbuf_putchar(&RB, (char)IN.d);
	in_call = false;
	VASSERT(rb_inv(), "C05 RG: the invariant holds when ringbuf_putchar returns");
	VASSERT(my_stores_writei == 1 && my_stores_readi == 0, "C05 ringbuf_putchar returns after publishing exactly its one byte and consuming nothing");
	if (w_state0 == W_FUTURE && w_dist0 == 0)
		VASSERT(w_state == W_INRING && w_val == IN.d, "C05 the byte of ringbuf_putchar enters the ring with its value");
	VCOVER(IN.d >= 0x80, "byte with the top bit set passes through the char parameter");
	VCOVER(RB.writei.v == 0, "publish wraps to index 0");
}
#else
void h_get(void)
{
	arbitrary_ring();
	uint8_t w_state0 = w_state, x_state0 = x_state;
	in_call = true;
	int r = ringbuf_get(&RB);
	in_call = false;
	VASSERT(rb_inv(), "C05 RG: the invariant holds when ringbuf_get returns");
	VASSERT(r >= -1 && r <= 255, "C05 get returns -1 or an unsigned byte value 0..255");
	VASSERT((r == -1) == (my_stores_readi == 0) && my_stores_readi <= 1, "C05 a successful get consumes exactly one byte, a failed get none");
	VASSERT(r != -1 || empty_seen, "C05 a get returns -1 only if the buffer was empty at some instant during the call");
	if (get_consumed && w_state0 != W_DONE && w_state == W_DONE)
		VASSERT(r == (int)w_val, "C05 the byte returned by get is the byte that was put in that slot (value 0..255, not sign-extended)");
	if (get_consumed && x_state0 != W_DONE && x_state == W_DONE) {
		VASSERT(r == (int)x_val, "C05 the byte returned by get is the byte that was put in that slot (value 0..255, not sign-extended)");
		VASSERT(w_state0 == W_DONE, "C05 bytes are returned in the order they were put (a later byte never overtakes an earlier one)");
	}
	VCOVER(r == 255, "byte value 255");
	VCOVER(r == -1, "empty");
	VCOVER(r >= 0 && RB.readi.v == 0, "readi wraps to 0");
	VCOVER(r >= 0 && w_state0 == W_FUTURE && w_state == W_DONE, "watched byte published by the producer during the get and consumed");
	VCOVER(L == MAXLEN, "largest buffer");
}

void h_empty(void)
{
	arbitrary_ring();
	in_call = true;
	bool e = ringbuf_empty(&RB);
	in_call = false;
	VASSERT(rb_inv(), "C05 RG: the invariant holds when ringbuf_empty returns");
	VASSERT(my_stores_readi == 0, "C05 ringbuf_empty publishes nothing");
	VASSERT(!e || empty_seen, "C05 ringbuf_empty returns true only if the buffer was empty at some instant during the call");
	VCOVER(e, "empty");
	VCOVER(!e, "not empty");
}
#endif

void h_init(void)
{
	VERIF_LOAD_INPUTS();
	L = IN.len;
	VASSUME(L >= 2 && L <= MAXLEN);
	BUF = malloc(L);
	VASSUME(BUF != NULL);
	memset(&RB, 0xa5, sizeof(RB));
	ringbuf_init(&RB, BUF, L);
	ringbuf_t st = RINGBUF_VAR_INIT(BUF, L);
	w_state = x_state = W_FUTURE;
	VASSERT(rb_inv() && RB.readi.v == RB.writei.v, "C05 ringbuf_init yields an empty ring that satisfies the invariant");
	VASSERT(st.bufp == RB.bufp && st.buf_len == RB.buf_len && st.readi.v == RB.readi.v && st.writei.v == RB.writei.v, "C05 RINGBUF_VAR_INIT and ringbuf_init describe the same ring");
}

#ifdef ROLE_PRODUCER
VERIF_ENTRIES(E(h_put) E(h_putchar) E(h_init))
#else
VERIF_ENTRIES(E(h_get) E(h_empty) E(h_init))
#endif
