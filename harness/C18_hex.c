/*
 * C18 - hex dump output parses back to the same bytes; the parser is safe on any text.
 * Real code: /repo/librfn/hex.c (hex_dump_to_file, hex_dump, hex_get_byte), reached by textual inclusion.
 *
 * (a) hex_get_byte, per-call STEP contract (DESIGN P5).  The text is a string of length n <= LMAX in a heap
 *     object of exactly n+1 bytes (a one-byte over-read is a CBMC dereference failure / an ASan report), with
 *     arbitrary non-NUL content.  The call is either a first call (s != NULL) or a continuation (s == NULL)
 *     whose cursor *p is anywhere in the string (offset 0..n) or NULL.  Obligations: result in -1..255; on
 *     success the cursor is inside the string, at least two characters beyond where the call started; on -1
 *     the cursor is NULL; with a NULL cursor the result is -1 again.  Because every successful call moves the
 *     cursor forward by >= 2 inside a string of n characters, at most n/2 calls succeed: the call sequence
 *     reaches -1 after finitely many calls, and stays there, by induction on the cursor.
 *     Value: ref_next() below is a reference reader written from the property statement, not from hex.c.  It
 *     answers only where the statement is unambiguous and says "no demand" (REF_NONE) everywhere else.
 *
 * (b) hex_dump_to_file / hex_dump with fprintf (and fputc/putc/fputs, should the code use them) captured into
 *     a ghost text buffer by macros defined before the inclusion of hex.c.  Format obligation: the text is,
 *     per byte, two lower-case hex digits, a newline after every 16th pair.  Round trip: repeated hex_get_byte
 *     over an exactly-sized copy of the captured text returns the original bytes followed by -1.
 *
 * hex_get_byte's loops are formed with goto and run over caller-sized data: they are unwound with unwinding
 * assertions, so everything here is a bounded stand-in (LMAX characters, MMAX bytes); see run/props/C18.py.
 *
 * Partitioning (run/props/C18.py): each query fixes, by -D, the string length (NFIX), first call or continuation
 * (FIRSTFIX), the resume offset (OFFFIX), live or ended sequence (NULLFIX), respectively the array length (MFIX);
 * LMAX / MMAX are then set to that length.  All partitions of a tier are run, so their union is the whole bounded
 * universe; contents (every character / byte value) stay symbolic in every query.  Without these macros the
 * harnesses are the unpartitioned versions of the same obligations.
 */
#include <ctype.h>
#include <stdio.h>
#include <stdlib.h>
#include <string.h>
#include "verif.h"
#include "librfn.h"

/* ------------------------------------------------------------------------------------------------------
 * ghost text buffer: what hex.c hands to the C library's output functions
 */
#define TEXT_MAX 160
static char g_text[TEXT_MAX];
static unsigned g_len;
static unsigned g_lost; /* characters that did not fit, or a conversion this capture cannot render */

static void emit(int c)
{
	if (g_len < TEXT_MAX - 1)
		g_text[g_len++] = (char)c;
	else
		g_lost++;
}

static void emit_hex(unsigned v, int width, int zero, const char *digits)
{
	char tmp[8];
	int k = 0;
	do {
		tmp[k++] = digits[v & 15];
		v >>= 4;
	} while (v != 0 && k < 8);
	for (int i = k; i < width; i++)
		emit(zero ? '0' : ' ');
	while (k > 0)
		emit(tmp[--k]);
}

/* the subset of printf that a hex dump can reasonably use: literal text, %%, %c, %s, %[0][w]x, %[0][w]X, with at
 * most two arguments (handed over as integers by the macro below, so that no va_list object is needed per call) */
static int verif_out(const char *fmt, intptr_t a0, intptr_t a1)
{
	unsigned before = g_len, argi = 0;
	for (unsigned i = 0; fmt[i] != 0 && i < 16; i++) {
		if (fmt[i] != '%') {
			emit(fmt[i]);
			continue;
		}
		i++;
		if (fmt[i] == '%') {
			emit('%');
			continue;
		}
		int zero = 0, width = 0;
		if (fmt[i] == '0') {
			zero = 1;
			i++;
		}
		if (fmt[i] >= '1' && fmt[i] <= '9')
			width = fmt[i++] - '0';
		if (argi >= 2) {
			g_lost++;
			break;
		}
		intptr_t arg = argi++ == 0 ? a0 : a1;
		if (fmt[i] == 'c')
			emit((unsigned char)arg);
		else if (fmt[i] == 'x')
			emit_hex((unsigned)arg, width, zero, "0123456789abcdef");
		else if (fmt[i] == 'X')
			emit_hex((unsigned)arg, width, zero, "0123456789ABCDEF");
		else if (fmt[i] == 's') {
			const char *s = (const char *)arg;
			for (unsigned j = 0; s[j] != 0 && j < 16; j++)
				emit(s[j]);
		} else {
			g_lost++;
			break;
		}
	}
	return (int)(g_len - before);
}
#define VERIF_OUT3(fmt, a, b, ...) verif_out(fmt, (intptr_t)(a), (intptr_t)(b))
#define verif_fprintf(f, ...) VERIF_OUT3(__VA_ARGS__, 0, 0, 0)
int verif_fputc(int c, FILE *f);
int verif_fputc(int c, FILE *f)
{
	(void)f;
	emit((unsigned char)c);
	return (unsigned char)c;
}
int verif_fputs(const char *s, FILE *f);
int verif_fputs(const char *s, FILE *f)
{
	(void)f;
	for (unsigned j = 0; s[j] != 0 && j < 16; j++)
		emit(s[j]);
	return 0;
}

#define fprintf(...) verif_fprintf(__VA_ARGS__)
#undef fputc
#define fputc verif_fputc
#undef putc
#define putc verif_fputc
#define fputs verif_fputs
#include "librfn/hex.c"
#undef fprintf
#undef fputc
#undef putc
#undef fputs
#include "hex_contract.h"

/* ------------------------------------------------------------------------------------------------------
 * bounds and the input record
 */
#ifndef LMAX
#define LMAX 4 /* longest string of the step contract */
#endif
#ifndef MMAX
#define MMAX 17 /* longest dumped array */
#endif
#define DUMP_LEN(m) (2u * (m) + ((m) + 15u) / 16u) /* pairs plus one newline per started line */
#define PAIR_POS(k) (2u * (k) + (k) / 16u)	    /* offset of the k-th pair in dumped text */

#define IN_FIELDS(S, A)                                                                            \
	S(uint8_t, n) S(uint8_t, first) S(uint8_t, off) S(uint8_t, cur_null) A(uint8_t, bytes, LMAX) \
	S(uint8_t, m) S(uint8_t, k) S(uint8_t, at_gap) A(uint8_t, data, MMAX)
VERIF_INPUTS(IN_FIELDS)

/* ------------------------------------------------------------------------------------------------------
 * reference reader, from the property statement: "hex pairs may carry a 0x prefix, either letter case,
 * arbitrary white space and an 'address:' prefix on each line".  Character classes are spelled out here
 * (C locale) so that the reference does not share the ctype model with the code under test.
 */
#define REF_NONE (-2) /* the statement does not determine the result for this text */

static bool is_ws(char c) { return c == ' ' || c == '\t' || c == '\n' || c == '\v' || c == '\f' || c == '\r'; }
static int hexval(char c)
{
	if (c >= '0' && c <= '9')
		return c - '0';
	if (c >= 'a' && c <= 'f')
		return c - 'a' + 10;
	if (c >= 'A' && c <= 'F')
		return c - 'A' + 10;
	return -1;
}
static bool is_alnum(char c) { return (c >= '0' && c <= '9') || (c >= 'a' && c <= 'z') || (c >= 'A' && c <= 'Z'); }

/*
 * t: NUL-terminated text (a local copy, at most TLEN characters), pos: where reading starts, line_start: whether
 * pos is the beginning of a line (first call, or just after a newline) - only there can an address prefix stand.
 * Demands are made only for these texts:
 *  - at the start of a line that contains a ':', the part before the first ':' must be one or more letters/digits
 *    (the address); reading continues after the ':'.  A line without ':' is read from its start provided no ':'
 *    occurs anywhere later in the text (whether a later line's prefix could affect this line is not something the
 *    statement settles);
 *  - then white space is skipped; a newline starts a new line (rule above applies again);
 *  - end of text reached this way: -1 (nothing but addresses and white space was left);
 *  - otherwise an optional "0x" and two hex digits of either case: the value is 16*first + second;
 *  - anything else: no demand.
 */
#define TLEN (LMAX > 8 ? LMAX : 8)
static int ref_next(const char *t, unsigned pos, bool line_start)
{
	for (unsigned guard = 0;; guard++) {
		if (guard > TLEN)
			return REF_NONE; /* not reachable: every round consumes a newline */
		if (line_start) {
			unsigned e = pos;
			while (t[e] != 0 && t[e] != '\n' && t[e] != ':')
				e++;
			if (t[e] == ':') {
				if (e == pos)
					return REF_NONE;
				for (unsigned k = pos; k < e; k++)
					if (!is_alnum(t[k]))
						return REF_NONE;
				pos = e + 1;
			} else {
				for (unsigned k = e; t[k] != 0; k++)
					if (t[k] == ':')
						return REF_NONE;
			}
			line_start = false;
		}
		while (is_ws(t[pos]) && t[pos] != '\n')
			pos++;
		if (t[pos] != '\n')
			break;
		pos++;
		line_start = true;
	}
	if (t[pos] == 0)
		return -1;
	if (t[pos] == '0' && t[pos + 1] == 'x')
		pos += 2;
	int hi = hexval(t[pos]);
	if (hi < 0)
		return REF_NONE;
	int lo = hexval(t[pos + 1]);
	if (lo < 0)
		return REF_NONE;
	return 16 * hi + lo;
}

/* ------------------------------------------------------------------------------------------------------
 * (a) step contract of hex_get_byte on arbitrary text
 */
static char *make_string(unsigned n)
{
	char *b = malloc(n + 1); /* exactly-sized: the NUL is the last byte of the object */
	VASSUME(b != NULL);
	for (unsigned i = 0; i < LMAX; i++)
		if (i < n) {
			VASSUME(IN.bytes[i] != 0);
			VBIND(b[i], (char)IN.bytes[i]);
		}
	b[n] = 0;
	return b;
}

/* offset of cur inside the string (0..n), or -1: pointer equality only, never a relational comparison
 * between pointers into different objects */
static int offset_in(const char *cur, const char *buf, unsigned n)
{
	for (unsigned i = 0; i <= LMAX; i++)
		if (i <= n && cur == buf + i)
			return (int)i;
	return -1;
}

/* a reachability goal that only makes sense in some partitions (string length / offset / first-or-continuation are
 * compile-time constants in the partitioned queries): outside them it is trivially met */
#define COVER_IF(applicable, c, msg) VCOVER(!(applicable) || (c), msg)

void h_step(void)
{
	VERIF_LOAD_INPUTS();
#ifdef NFIX /* one query per string length: the object size is then a constant */
	VASSUME(IN.n == NFIX);
	unsigned n = NFIX;
#else
	unsigned n = IN.n;
#endif
#ifdef FIRSTFIX /* first call and continuation in separate queries */
	VASSUME((IN.first != 0) == (FIRSTFIX != 0));
	bool first = FIRSTFIX != 0;
#else
	bool first = IN.first != 0;
#endif
#ifdef OFFFIX /* one query per resume offset: every read of the text is then at a constant offset */
	VASSUME(IN.off == OFFFIX);
	unsigned off = OFFFIX;
#else
	unsigned off = IN.off;
#endif
#ifdef NULLFIX /* the ended sequence (NULL cursor) in a query of its own */
	VASSUME((IN.cur_null != 0) == (NULLFIX != 0));
	bool cur_null = NULLFIX != 0;
#else
	bool cur_null = IN.cur_null != 0;
#endif
	VASSUME(n <= LMAX);
	VASSUME(off <= n);
	char *buf = make_string(n);
	char t[TLEN + 3];
	for (unsigned i = 0; i < sizeof(t); i++)
		t[i] = (i < n && i < LMAX) ? (char)IN.bytes[i] : 0;

	/* resume cursor: NULL (the sequence has ended) or anywhere in the string; a first call ignores it */
	const char *cur = cur_null ? NULL : buf + off;
	unsigned start = first ? 0 : off;

	int r = hex_get_byte(first ? buf : NULL, &cur);

	int where = offset_in(cur, buf, n);
	VASSERT(r >= -1 && r <= 255, "C18 hex_get_byte returns only values in 0..255 or -1");
	if (!first && cur_null)
		VASSERT(r == -1 && cur == NULL, "C18 once -1 was returned (NULL cursor) every later call returns -1 again");
	if (r >= 0)
		VASSERT(where >= (int)start + 2 && where <= (int)n,
			"C18 on success the cursor moves forward by at least two characters and stays within the string (so -1 is reached after finitely many calls)");
	if (r < 0)
		VASSERT(cur == NULL, "C18 on -1 the cursor becomes NULL");
	bool same = true;
	for (unsigned i = 0; i <= LMAX; i++)
		if (i <= n && buf[i] != t[i])
			same = false;
	VASSERT(same, "C18 hex_get_byte leaves the text unchanged");
	bool live = first || !cur_null; /* there is text to read: the reference reader has something to say */
	int want = live ? ref_next(t, start, first) : -1;
	unsigned left = n - start; /* characters from where reading starts */
	VASSERT(want == REF_NONE || r == want,
		"C18 a hex pair at the cursor (optional 0x prefix, either letter case, after white space and an 'address:' prefix) is returned as its value; text with nothing left yields -1");
	COVER_IF(live && left >= 2, want >= 0 && r == want && where == (int)n, "pair at the very end of the string");
	COVER_IF(live && left >= 5 && !first, want >= 0 && r == want && t[start] == '\n' && t[start + 2] == ':',
		 "continuation runs onto a new line that carries an address prefix");
	COVER_IF(live && left >= 1, want == -1, "only white space / address left");
	COVER_IF(live && left >= (first ? 3 : 4), want == REF_NONE && r >= 0, "no demand from the statement, parser finds a byte");
	COVER_IF(live && left >= 1, want == REF_NONE && r == -1, "no demand from the statement, parser ends");
	COVER_IF(live && left >= 1, r == -1 && t[n - (n ? 1 : 0)] == '0', "string ending in a lone 0");
	COVER_IF(live && left >= 2, r == -1 && t[n - (n ? 1 : 0)] == 'x' && t[n - (n > 1 ? 2 : 0)] == '0', "string ending in 0x");
	COVER_IF(live && left >= 2 && !first && off > 0, r >= 0, "continuation from inside the string succeeds");
	COVER_IF(!live, r == -1, "ended sequence");
#ifdef VERIF_NATIVE
	free(buf);
#endif
}

/* ------------------------------------------------------------------------------------------------------
 * (b) dump format, and the round trip
 */
static const char LOWER[] = "0123456789abcdef"; /* "two-digit lower-case pairs" */

static unsigned char *make_array(unsigned m)
{
	unsigned char *a = malloc(m); /* exactly-sized */
	VASSUME(a != NULL);
	for (unsigned i = 0; i < MMAX; i++)
		if (i < m)
			VBIND(a[i], IN.data[i]);
	return a;
}

static void arbitrary_capture(void)
{
#ifndef VERIF_NATIVE
	__CPROVER_havoc_object(g_text); /* statics are zero-initialised: havoc explicitly (vacuity guard) */
#else
	memset(g_text, '?', sizeof(g_text));
#endif
	g_len = 0;
	g_lost = 0;
}

static unsigned array_length(void)
{
#ifdef MFIX /* one query per array length: the layout of the text is then fixed, only the digits are symbolic */
	VASSUME(IN.m == MFIX);
	unsigned m = MFIX;
#else
	unsigned m = IN.m;
#endif
	VASSUME(m <= MMAX);
	return m;
}

/* the captured text is, for each byte, two lower-case digits, with a newline after every 16th pair; the newline
 * that ends the last line is accepted but not demanded (the statement speaks of pairs per line only) */
static void check_format(const unsigned char *a, unsigned m)
{
	VASSERT(g_lost == 0, "C18 the dump uses only output the capture can render (literal text, %c, %x, %s, fputc, fputs)");
	VASSERT(g_len == DUMP_LEN(m) || (m > 0 && g_len == DUMP_LEN(m) - 1) || (m == 0 && g_len == 1),
		"C18 the dump is two characters per byte plus one newline per line of 16 pairs");
	bool digits = true, lines = true;
	for (unsigned k = 0; k < MMAX; k++)
		if (k < m) {
			unsigned pos = PAIR_POS(k);
			if (g_text[pos] != LOWER[IN.data[k] >> 4] || g_text[pos + 1] != LOWER[IN.data[k] & 15])
				digits = false;
			if (k % 16 == 15 && k + 1 < m && g_text[pos + 2] != '\n')
				lines = false;
		}
	if (g_len == DUMP_LEN(m) && m > 0 && g_text[g_len - 1] != '\n')
		lines = false;
	if (m == 0 && g_len == 1 && g_text[0] != '\n')
		lines = false;
	VASSERT(digits, "C18 every byte is dumped as a two-digit lower-case hex pair");
	VASSERT(lines, "C18 the dump has 16 pairs per line: a newline follows every 16th pair");
	bool same = true;
	for (unsigned k = 0; k < MMAX; k++)
		if (k < m && a[k] != IN.data[k])
			same = false;
	VASSERT(same, "C18 dumping leaves the byte array unchanged");
}

void h_dump(void)
{
	VERIF_LOAD_INPUTS();
	unsigned m = array_length();
	unsigned char *a = make_array(m);
	arbitrary_capture();
	hex_dump_to_file(NULL, a, m);
	check_format(a, m);
	COVER_IF(m > 0, IN.data[m ? m - 1 : 0] == 0xaf, "last byte 0xaf");
	COVER_IF(m > 0, IN.data[0] >= 0x80, "a byte with the top bit set");
	VCOVER(g_len == DUMP_LEN(m), "dump ends with a newline (or is empty)");
#ifdef VERIF_NATIVE
	free(a);
#endif
}

/* hex_dump is the same dump on stdout */
void h_dump_stdout(void)
{
	VERIF_LOAD_INPUTS();
	unsigned m = array_length();
	unsigned char *a = make_array(m);
	arbitrary_capture();
	hex_dump(a, m);
	check_format(a, m);
	COVER_IF(m > 0, IN.data[m ? m - 1 : 0] == 0xf0, "last byte 0xf0");
#ifdef VERIF_NATIVE
	free(a);
#endif
}

/* exactly-sized heap copy of the captured text */
static char *text_copy(void)
{
	char *txt = malloc(g_len + 1);
	VASSUME(txt != NULL);
	for (unsigned i = 0; i < TEXT_MAX; i++)
		if (i < g_len)
			txt[i] = g_text[i];
	txt[g_len] = 0;
	return txt;
}

/* whole iteration: parse(dump(a)) == a followed by -1 */
void h_roundtrip(void)
{
	VERIF_LOAD_INPUTS();
	unsigned m = array_length();
	unsigned char *a = make_array(m);
	arbitrary_capture();
	hex_dump_to_file(NULL, a, m);
	VASSUME(g_lost == 0 && g_len <= DUMP_LEN(MMAX)); /* format is h_dump's obligation */
	char *txt = text_copy();
	const char *cur = NULL;
	bool all = true;
	int r = 0;
	for (unsigned k = 0; k <= MMAX; k++)
		if (k <= m) {
			r = hex_get_byte(k == 0 ? txt : NULL, &cur);
			if (k < m && r != (int)IN.data[k])
				all = false;
		}
	VASSERT(all, "C18 repeated hex_get_byte over the dumped text returns exactly the original bytes, in order");
	VASSERT(r == -1, "C18 after the last dumped byte hex_get_byte returns -1");
	VCOVER(all && r == -1, "round trip completes");
#ifdef VERIF_NATIVE
	free(a);
	free(txt);
#endif
}

/*
 * Round trip, per step on dumped text (DESIGN 5.C18): the text is the real dump of an arbitrary array of m bytes.
 * Before the call k bytes have been delivered (0 <= k <= m) and the cursor is in the gap between pair k-1 and
 * pair k: just after pair k-1 (which is the newline when k is a multiple of 16) or at pair k itself.  The call
 * returns byte k and leaves the cursor in the gap between pair k and pair k+1; for k == m it returns -1.
 * k == 0 is the first call (s != NULL).  By induction on k the call sequence returns a[0..m-1] and then -1.
 */
void h_roundtrip_step(void)
{
	VERIF_LOAD_INPUTS();
	unsigned m = array_length();
	unsigned char *a = make_array(m);
	arbitrary_capture();
	hex_dump_to_file(NULL, a, m);
	VASSUME(g_lost == 0 && g_len <= DUMP_LEN(MMAX));
	char *txt = text_copy();
	unsigned k = IN.k;
	VASSUME(k <= m);
	unsigned len = g_len;
	/* the gap before pair k: [after pair k-1, start of pair k]; for k == m it extends to the end of the text */
	unsigned gap_lo = k == 0 ? 0 : PAIR_POS(k - 1) + 2;
	unsigned gap_hi = k < m ? PAIR_POS(k) : len;
	unsigned at = IN.at_gap ? gap_hi : gap_lo;
	VASSUME(gap_lo <= len && gap_hi <= len);
	const char *cur = k == 0 ? NULL : txt + at;
	int r = hex_get_byte(k == 0 ? txt : NULL, &cur);
	if (k < m) {
		unsigned nlo = PAIR_POS(k) + 2, nhi = k + 1 < m ? PAIR_POS(k + 1) : len;
		bool in_gap = false;
		for (unsigned i = 0; i <= 3; i++)
			if (nlo + i <= nhi && cur == txt + nlo + i)
				in_gap = true;
		VASSERT(r == (int)IN.data[k], "C18 the call after k delivered bytes returns byte k of the dumped array");
		VASSERT(in_gap, "C18 after delivering byte k the cursor rests between pair k and pair k+1 of the dumped text");
	} else {
		VASSERT(r == -1 && cur == NULL, "C18 after the last dumped byte hex_get_byte returns -1");
	}
	COVER_IF(m > 16, k == 16 && !IN.at_gap && r == (int)IN.data[MMAX > 16 ? 16 : 0], "cursor on the newline after a full line");
	VCOVER(k == m && r == -1, "end of the dump");
	COVER_IF(m > 0, k == 0 && r == (int)IN.data[0], "first call");
	COVER_IF(m > 1, k == m - 1 && r >= 0x80, "last byte, top bit set");
#ifdef VERIF_NATIVE
	free(a);
	free(txt);
#endif
}

VERIF_ENTRIES(E(h_step) E(h_dump) E(h_dump_stdout) E(h_roundtrip) E(h_roundtrip_step))
