/*
 * C01 / C02 / C03 (and the sequential lemmas of C06) - the cooperative fibre scheduler.
 * Real code: /repo/librfn/fibre.c, list.c, messageq.c, util.c (cyclecmp32), reached by textual inclusion, so
 * the static `kernel`, make_runnable, handle_atomic_runq, handle_timerq, ... are in scope.  Real <stdatomic.h>
 * (sequential semantics; the interrupt-timing side is harness/C06_fibre_irq.c).
 *
 * Patterns P2/P4/P5: an ABSTRACT scheduler state
 *     S = (rq, tq, pend, cur, st, now, due[], priv[], fstate[], taint)
 * over a pool of NF fibres is taken from the input record, constrained by the scheduler invariant (integer
 * assumptions only) and realised in memory constructively (realise()).  One real API function is run from that
 * ARBITRARY invariant state and the complete post-state, read back by the abstraction function absS(), is compared
 * with a spec function written from the statements of C01-C03 (s_drain, s_run, s_kill, s_timeout, s_next_pre,
 * s_wakeup).  Every operation re-establishes the invariant, so histories of any length follow by induction from
 * the static initial state (h_initial).
 *
 * Modular structure (P3):
 *   - handle_atomic_runq (the only unbounded-looking loop) is verified against s_drain in h_drain and substituted
 *     by the contract stub handle_atomic_runq_contract (goto-instrument --replace-calls) everywhere else;
 *   - the dispatched fibre body is the contract-only function verif_body (function-pointer restriction): at entry
 *     it checks the state against s_next_pre (what the pass must have done before dispatching), then produces ANY
 *     invariant state with cur / now unchanged - the closure of what a body may do with fibre_run, fibre_kill,
 *     one fibre_timeout and interrupt handlers posting fibre_run_atomic requests (each of those is shown to
 *     preserve the invariant by its own harness) - and returns any of yielded / waiting / exited / failed.
 *
 * Time: kernel.now is an arbitrary 32-bit value; pending due times are now+off with off in 1..2^31-1, sorted;
 * the time argument is now+T for ANY signed T with every pending due time within 2^31 ticks of it (the record's
 * scope), so every placement of the window, including both wrap points, is covered.
 */
#include <string.h>
#include "verif.h"
#ifdef VERIF_NATIVE
#include <stdio.h>
uint32_t time_now(void) { return 0; }
uint64_t time64_now(void) { return 0; }
#endif
#include "librfn/list.c"
#include "librfn/messageq.c"
#include "librfn/util.c"
#include "librfn/fibre.c"

/* CBMC's generated memory-safety checks stay enabled for the real code included above; they are switched off for the
 * harness's own helper code below (spec functions, abstraction function, realise), whose accesses are over fixed-size
 * arrays of the harness - this removes about two thirds of the verification conditions of each query */
#ifndef VERIF_NATIVE
#pragma CPROVER check push
#pragma CPROVER check disable "pointer"
#pragma CPROVER check disable "bounds"
#pragma CPROVER check disable "pointer-primitive"
#endif

/* the atomic fields of the real structures: plain _Atomic objects with the real <stdatomic.h>, one-member structs with the
 * shadow <stdatomic.h> of the interruption harnesses (C06_IRQ) */
#ifdef C06_IRQ
#define ATOM(x) ((x).v)
#else
#define ATOM(x) (x)
#endif

#ifndef NF
#define NF 3 /* fibre pool */
#endif
#ifndef PMAX
#define PMAX 3 /* pending atomic requests in the pre-state (the queue's real capacity is 8) */
#endif
#define QD 8
#define NONE 0xff
#define YIELDED FIBRE_STATE_YIELDED
#define WAITING FIBRE_STATE_WAITING
#define EXITED FIBRE_STATE_EXITED
#define FAILED FIBRE_STATE_FAILED

#define IN_FIELDS(S, A)                                                                                         \
	S(uint8_t, nrq) A(uint8_t, rq, NF) S(uint8_t, ntq) A(uint8_t, tq, NF) S(uint8_t, np) A(uint8_t, pend, QD) \
	S(uint8_t, rcv) S(uint8_t, cur) S(uint8_t, st) S(uint32_t, now) A(uint32_t, off, NF) A(uint16_t, priv, NF) \
	A(uint16_t, fst, NF) A(uint8_t, stale, 8) S(uint32_t, taint) S(int32_t, T) S(uint8_t, f) S(int32_t, d_off) \
	S(uint8_t, b_res) S(uint8_t, b_nrq) A(uint8_t, b_rq, NF) S(uint8_t, b_ntq) A(uint8_t, b_tq, NF)             \
	S(uint8_t, b_np) A(uint8_t, b_pend, QD) S(uint8_t, b_rcv) A(uint32_t, b_off, NF) S(uint16_t, b_priv)       \
	A(uint32_t, b_due, NF) S(uint32_t, b_taint) A(uint8_t, e_m, 12) A(uint8_t, e_f, 12) S(uint8_t, e_junk)
VERIF_INPUTS(IN_FIELDS)

struct S {
	uint8_t nrq, rq[NF + 1], ntq, tq[NF + 1], np, pend[QD], rcv, cur, st;
	uint32_t now, due[NF], taint;
	uint16_t priv[NF], fstate[NF];
};

static fibre_t F[NF];
static list_node_t STALE;
static unsigned stale_uses;
int verif_body(fibre_t *f);

/* ------------------------------------------------------------------------------------ small sequence helpers */
static bool member(const uint8_t *s, unsigned n, unsigned x)
{
	for (unsigned i = 0; i < NF; i++)
		if (i < n && s[i] == x)
			return true;
	return false;
}

static void seq_remove(uint8_t *s, uint8_t *n, unsigned x)
{
	unsigned k = 0;
	for (unsigned i = 0; i < NF; i++)
		if (i < *n && s[i] != x)
			s[k++] = s[i];
	*n = (uint8_t)k;
}

static void seq_append(uint8_t *s, uint8_t *n, unsigned x)
{
	if (*n < NF)
		s[*n] = (uint8_t)x;
	(*n)++;
}

static bool seq_eq(const uint8_t *a, unsigned na, const uint8_t *b, unsigned nb)
{
	if (na != nb)
		return false;
	for (unsigned i = 0; i < NF; i++)
		if (i < na && a[i] != b[i])
			return false;
	return true;
}

static int32_t rel(const struct S *s, unsigned i) { return (int32_t)(s->due[i] - s->now); }

/* ------------------------------------------------------------------------------------ invariant (over integers) */
static bool wf_struct(const struct S *s)
{
	if (s->nrq > NF || s->ntq > NF || s->nrq + s->ntq > NF || s->np > QD || s->rcv >= QD)
		return false;
	for (unsigned i = 0; i < NF; i++) {
		if (i < s->nrq && (s->rq[i] >= NF || member(s->rq, i, s->rq[i])))
			return false;
		if (i < s->ntq && (s->tq[i] >= NF || member(s->tq, i, s->tq[i]) || member(s->rq, s->nrq, s->tq[i])))
			return false;
	}
	for (unsigned i = 0; i < QD; i++)
		if (i < s->np && s->pend[i] >= NF)
			return false;
	if (s->cur != NONE && s->cur >= NF)
		return false;
	return s->st <= FAILED;
}

/* every pending due time is cyclically after now and the timer queue is sorted by due time */
static bool wf_time(const struct S *s)
{
	for (unsigned i = 0; i < NF; i++) {
		if (i < s->ntq && rel(s, s->tq[i]) <= 0)
			return false;
		if (i + 1 < s->ntq && rel(s, s->tq[i]) > rel(s, s->tq[i + 1]))
			return false;
	}
	return true;
}

/* ------------------------------------------------------------------------------------ realise / abstract */
static list_node_t *stale_tail(void)
{
	unsigned c = IN.stale[stale_uses < 8 ? stale_uses : 7] % (NF + 2);
	stale_uses++;
	return c < NF ? &F[c].link : c == NF ? NULL : &STALE;
}

static void realise_list(list_t *l, const uint8_t *s, unsigned n)
{
	l->head = n ? &F[s[0]].link : NULL;
	for (unsigned i = 0; i + 1 < NF; i++)
		if (i + 1 < n)
			F[s[i]].link.next = &F[s[i + 1]].link;
	if (n) {
		F[s[n - 1]].link.next = NULL;
		l->tail = &F[s[n - 1]].link;
	} else {
		l->tail = stale_tail(); /* the tail of an empty list is meaningless: any value */
	}
}

static void realise(const struct S *s)
{
	for (unsigned i = 0; i < NF; i++) {
		F[i].fn = verif_body;
		F[i].state = s->fstate[i];
		F[i].priv = s->priv[i];
		F[i].duetime = s->due[i];
		F[i].link.next = NULL;
	}
	STALE.next = NULL;
	realise_list(&kernel.runq, s->rq, s->nrq);
	realise_list(&kernel.timerq, s->tq, s->ntq);
	kernel.current = s->cur == NONE ? NULL : &F[s->cur];
	kernel.state = (fibre_state_t)s->st;
	kernel.now = s->now;
	ATOM(kernel.taint_flags) = s->taint;
	unsigned flags = 0;
	for (unsigned k = 0; k < QD; k++) {
		unsigned slot = (s->rcv + k) % QD;
		if (k < s->np) {
			flags |= 1u << slot;
			atomic_runq_buf[slot] = &F[s->pend[k]];
		} else {
			atomic_runq_buf[slot] = NULL;
		}
	}
	kernel.atomic_runq.receivep = s->rcv;
	ATOM(kernel.atomic_runq.sendp) = (unsigned char)((s->rcv + s->np) % QD);
	ATOM(kernel.atomic_runq.num_free) = (signed char)(QD - s->np);
	ATOM(kernel.atomic_runq.full_flags) = flags;
}

static uint8_t idx_of_link(const list_node_t *p)
{
	for (unsigned i = 0; i < NF; i++)
		if (p == &F[i].link)
			return (uint8_t)i;
	return NONE;
}

static uint8_t idx_of_fibre(const fibre_t *p)
{
	for (unsigned i = 0; i < NF; i++)
		if (p == &F[i])
			return (uint8_t)i;
	return NONE;
}

static bool abs_list(list_t *l, uint8_t *s, uint8_t *n)
{
	list_node_t *p = l->head;
	unsigned k = 0;
	for (unsigned i = 0; i <= NF; i++) {
		if (!p)
			break;
		if (i == NF)
			return false; /* longer than the pool: a cycle */
		uint8_t x = idx_of_link(p);
		if (x == NONE)
			return false;
		s[k++] = x;
		p = p->next;
	}
	*n = (uint8_t)k;
	if (k && l->tail != &F[s[k - 1]].link)
		return false;
	return true;
}

/* reads the scheduler's real state; false if it is not the image of any abstract state */
static bool absS(struct S *s)
{
	bool ok = abs_list(&kernel.runq, s->rq, &s->nrq);
	ok = abs_list(&kernel.timerq, s->tq, &s->ntq) && ok;
	if (!ok)
		return false;
	for (unsigned i = 0; i < NF; i++) {
		if (!member(s->rq, s->nrq, i) && !member(s->tq, s->ntq, i) && F[i].link.next != NULL)
			return false; /* a fibre on no queue has a cleared link */
		if (F[i].fn != verif_body)
			return false;
		s->due[i] = F[i].duetime;
		s->priv[i] = F[i].priv;
		s->fstate[i] = F[i].state;
	}
	messageq_t *q = &kernel.atomic_runq;
	if (q->basep != (char *)atomic_runq_buf || q->msg_len != sizeof(atomic_runq_buf[0]) || q->queue_len != QD || q->receivep >= QD)
		return false;
	s->rcv = q->receivep;
	unsigned flags = ATOM(q->full_flags), np = 0, want = 0;
	bool run = true;
	for (unsigned k = 0; k < QD; k++) {
		unsigned slot = (s->rcv + k) % QD;
		if (run && (flags & (1u << slot))) {
			uint8_t x = idx_of_fibre(atomic_runq_buf[slot]);
			if (x == NONE)
				return false;
			s->pend[np++] = x;
			want |= 1u << slot;
		} else {
			run = false;
		}
	}
	s->np = (uint8_t)np;
	if (flags != want || ATOM(q->sendp) != (s->rcv + np) % QD || ATOM(q->num_free) != (int)(QD - np))
		return false; /* sent messages are contiguous from the read position; the free count is exact at rest */
	if (kernel.current == NULL) {
		s->cur = NONE;
	} else {
		s->cur = idx_of_fibre(kernel.current);
		if (s->cur == NONE)
			return false;
	}
	s->st = (uint8_t)kernel.state;
	s->now = kernel.now;
	s->taint = ATOM(kernel.taint_flags);
	return wf_struct(s);
}

/* ------------------------------------------------------------------------------------ comparison, obligation by obligation */
static bool eq_runq(const struct S *a, const struct S *b) { return seq_eq(a->rq, a->nrq, b->rq, b->nrq); }
static bool eq_timerq(const struct S *a, const struct S *b) { return seq_eq(a->tq, a->ntq, b->tq, b->ntq); }
static bool eq_pend(const struct S *a, const struct S *b)
{
	if (a->np != b->np || a->rcv != b->rcv)
		return false;
	for (unsigned i = 0; i < QD; i++)
		if (i < a->np && a->pend[i] != b->pend[i])
			return false;
	return true;
}
static bool eq_fibres(const struct S *a, const struct S *b)
{
	for (unsigned i = 0; i < NF; i++)
		if (a->due[i] != b->due[i] || a->priv[i] != b->priv[i] || a->fstate[i] != b->fstate[i])
			return false;
	return true;
}
static bool eq_kernel(const struct S *a, const struct S *b) { return a->cur == b->cur && a->st == b->st && a->now == b->now && a->taint == b->taint; }

/* ------------------------------------------------------------------------------------ the specification (from the statements) */

/* a fibre joins the run queue at the tail unless it is already queued; becoming runnable cancels its pending timeout */
static void s_make_runnable(struct S *s, unsigned f)
{
	if (!member(s->rq, s->nrq, f)) {
		seq_remove(s->tq, &s->ntq, f);
		seq_append(s->rq, &s->nrq, f);
	}
}

/* accepted atomic requests join the run queue in their order of arrival */
static void s_drain(struct S *s)
{
	for (unsigned k = 0; k < QD; k++)
		if (k < s->np)
			s_make_runnable(s, s->pend[k]);
	s->rcv = (uint8_t)((s->rcv + s->np) % QD);
	s->np = 0;
}

static void s_run(struct S *s, unsigned f)
{
	s_drain(s);
	s_make_runnable(s, f);
}

static bool s_kill(struct S *s, unsigned f)
{
	s_drain(s);
	bool res = member(s->rq, s->nrq, f) || member(s->tq, s->ntq, f);
	seq_remove(s->rq, &s->nrq, f);
	seq_remove(s->tq, &s->ntq, f);
	return res;
}

/* true iff the due time has been reached; otherwise the running fibre sleeps until then, after every sleeper that is due
 * no later (unless it is already runnable, in which case the run request wins) */
static bool s_timeout(struct S *s, uint32_t d)
{
	if ((int32_t)(d - s->now) <= 0)
		return true;
	unsigned c = s->cur;
	s->due[c] = d;
	if (!member(s->rq, s->nrq, c)) {
		unsigned pos = 0;
		for (unsigned i = 0; i < NF; i++)
			if (i < s->ntq && (int32_t)(s->due[s->tq[i]] - d) <= 0)
				pos = i + 1;
		for (unsigned i = NF; i > 0; i--)
			if (i > pos && i <= s->ntq)
				s->tq[i] = s->tq[i - 1];
		s->tq[pos] = (uint8_t)c;
		s->ntq++;
	}
	return false;
}

/* the part of a scheduling pass that precedes the dispatch */
static void s_next_pre(struct S *s, uint32_t t)
{
	s->now = t;
	bool fast = s->st == YIELDED && s->nrq == 0 && s->ntq == 0 && s->np == 0;
	if (fast)
		return; /* a lone fibre yielding to itself is dispatched again at once */
	s_drain(s);
	if (s->cur != NONE) {
		s->fstate[s->cur] = s->st;
		if (s->st == YIELDED) {
			s_make_runnable(s, s->cur);
		} else if (s->st == EXITED || s->st == FAILED) {
			s->priv[s->cur] = 0; /* restarts from its beginning when next dispatched */
			if (s->st == FAILED)
				s->taint |= 1u << ('F' - 'A');
		}
	}
	/* the fibres whose timeouts this pass finds expired, in due order */
	unsigned k = 0;
	bool more = true;
	for (unsigned i = 0; i < NF; i++)
		if (more && i < s->ntq && (int32_t)(s->due[s->tq[i]] - t) <= 0)
			k = i + 1;
		else
			more = false;
	for (unsigned i = 0; i < NF; i++)
		if (i < k)
			seq_append(s->rq, &s->nrq, s->tq[i]);
	for (unsigned i = 0; i < NF; i++)
		if (i + k < s->ntq)
			s->tq[i] = s->tq[i + k];
	s->ntq = (uint8_t)(s->ntq - k);
	/* dispatch the head of the run queue, or nothing */
	if (s->nrq) {
		s->cur = s->rq[0];
		seq_remove(s->rq, &s->nrq, s->cur);
	} else {
		s->cur = NONE;
	}
}

/* C03: the time until which the caller may sleep */
static uint32_t s_wakeup(const struct S *s)
{
	if (s->np || s->nrq)
		return s->now;
	if (!s->ntq)
		return s->now + 0x7fffffffu;
	return s->due[s->tq[0]];
}

/* ------------------------------------------------------------------------------------ arbitrary invariant pre-state */
static struct S S0;

static void load_state(struct S *s, bool with_time_inv)
{
	VERIF_LOAD_INPUTS();
	stale_uses = 0;
	s->nrq = IN.nrq;
	s->ntq = IN.ntq;
	s->np = IN.np;
	s->rcv = IN.rcv;
	s->cur = IN.cur;
	s->st = IN.st;
	s->now = IN.now;
	s->taint = IN.taint;
#ifdef FIX_ST /* ... and per last result of the current fibre */
	s->st = FIX_ST;
#endif
#ifdef FIX_NRQ /* partition of the universe: one query per (run queue length, timer queue length), assigned so that constants propagate */
	s->nrq = FIX_NRQ;
	s->ntq = FIX_NTQ;
#endif
	for (unsigned i = 0; i < NF; i++) {
#ifndef NOSYM
		/* symmetry reduction over fibre identities: the run queue is fibres 0..nrq-1, the timer queue the next ntq fibres,
		 * in queue order.  Every state is the image of such a state under a renaming of the pool, and neither the real
		 * code nor the specification depends on which fibre is which (addresses are only compared for equality). */
		s->rq[i] = (uint8_t)i;
		s->tq[i] = (uint8_t)(s->nrq + i);
#else
		s->rq[i] = IN.rq[i];
		s->tq[i] = IN.tq[i];
#endif
		s->due[i] = IN.now + IN.off[i];
		s->priv[i] = IN.priv[i];
		s->fstate[i] = IN.fst[i];
	}
	for (unsigned i = 0; i < QD; i++)
		s->pend[i] = IN.pend[i];
	VASSUME(s->np <= PMAX);
	VASSUME(wf_struct(s));
	if (with_time_inv)
		VASSUME(wf_time(s));
	realise(s);
}

static void check_post(const struct S *want, const char *unused)
{
	(void)unused;
	struct S got;
	bool ok = absS(&got);
	VASSERT(ok, "C01 the scheduler's queues stay well formed (no fibre on two queues, links and tails consistent, atomic queue counters exact)");
	VASSERT(!ok || eq_runq(&got, want), "C01 the run queue holds exactly the fibres the statement says, in FIFO order (joined at the tail, already-queued fibres not queued again)");
	VASSERT(!ok || eq_timerq(&got, want), "C02 the timer queue holds exactly the pending timeouts, in due order (a timeout is cancelled by a run request or a kill)");
	VASSERT(!ok || eq_pend(&got, want), "C01 pending atomic run requests are consumed exactly by the draining operations, in order");
	VASSERT(!ok || eq_fibres(&got, want), "C01 no fibre's due time, restart point or recorded state changes except as the statement says");
	VASSERT(!ok || eq_kernel(&got, want), "C01 current fibre, last result, time base and taint flags change only as the statement says");
	VASSERT(!ok || wf_time(&got), "C02 every pending due time is cyclically after the scheduler's time and the timer queue is sorted (invariant re-established)");
}

/* ------------------------------------------------------------------------------------ contract stub: handle_atomic_runq */
void handle_atomic_runq_contract(void)
{
	struct S a;
	bool ok = absS(&a);
	VASSERT(ok, "C01 handle_atomic_runq is called with the scheduler's queues well formed (callee precondition)");
	if (!ok)
		VASSUME(0);
	s_drain(&a);
	realise(&a);
}

/* contract stub of fibre_run (enforced by h_run): used only by the harness of handle_atomic_runq, so that a drain loop that
 * goes through fibre_run (the mutual recursion of defect F1) is checked against fibre_run's contract instead of being unfolded */
void fibre_run_contract(fibre_t *f)
{
	struct S a;
	bool ok = absS(&a);
	uint8_t x = idx_of_fibre(f);
	VASSERT(ok && x != NONE, "C01 fibre_run is called with the scheduler's queues well formed and a valid fibre (callee precondition)");
	if (!ok || x == NONE)
		VASSUME(0);
	s_run(&a, x);
	realise(&a);
}

/* ------------------------------------------------------------------------------------ raw snapshot (frame checks) */
struct raw {
	list_node_t *rh, *rt, *th, *tt, *next[NF];
	uint32_t due[NF], now, flags, taint;
	uint16_t priv[NF], state[NF];
	fibre_t *buf[QD];
	unsigned rcv, sendp;
	int num_free;
};

static void snap(struct raw *r)
{
	r->rh = kernel.runq.head;
	r->rt = kernel.runq.head ? kernel.runq.tail : NULL; /* the tail of an empty list is meaningless */
	r->th = kernel.timerq.head;
	r->tt = kernel.timerq.head ? kernel.timerq.tail : NULL;
	for (unsigned i = 0; i < NF; i++) {
		r->next[i] = F[i].link.next;
		r->due[i] = F[i].duetime;
		r->priv[i] = F[i].priv;
		r->state[i] = F[i].state;
	}
	for (unsigned i = 0; i < QD; i++)
		r->buf[i] = atomic_runq_buf[i];
	r->now = kernel.now;
	r->flags = ATOM(kernel.atomic_runq.full_flags);
	r->taint = ATOM(kernel.taint_flags);
	r->rcv = kernel.atomic_runq.receivep;
	r->sendp = ATOM(kernel.atomic_runq.sendp);
	r->num_free = ATOM(kernel.atomic_runq.num_free);
}

/* the scheduler's own queues and the fibres (everything an interrupt handler never touches) */
static bool raw_eq_sched(const struct raw *a, const struct raw *b)
{
	bool eq = a->rh == b->rh && a->rt == b->rt && a->th == b->th && a->tt == b->tt && a->now == b->now;
	for (unsigned i = 0; i < NF; i++)
		eq = eq && a->next[i] == b->next[i] && a->due[i] == b->due[i] && a->priv[i] == b->priv[i] && a->state[i] == b->state[i];
	return eq;
}

static bool raw_eq(const struct raw *a, const struct raw *b)
{
	bool eq = raw_eq_sched(a, b) && a->flags == b->flags && a->taint == b->taint && a->rcv == b->rcv && a->sendp == b->sendp && a->num_free == b->num_free;
	for (unsigned i = 0; i < QD; i++)
		eq = eq && a->buf[i] == b->buf[i];
	return eq;
}
static struct raw BODY_RAW;

/* ------------------------------------------------------------------------------------ contract-only fibre body */
static struct S EXPECT_PRE, BODY_POST;
static bool body_called, irq_body;
static int body_result;

int verif_body(fibre_t *f)
{
	struct S a;
	bool ok = absS(&a);
	VASSERT(!body_called, "C01 each fibre_scheduler_next call dispatches at most one fibre");
	body_called = true;
	VASSERT(ok, "C01 the scheduler's queues are well formed when a fibre is dispatched");
	if (!ok)
		VASSUME(0);
	VASSERT(f != NULL && f == fibre_self(), "C01 fibre_self names the fibre being dispatched");
	if (!irq_body) {
	VASSERT(a.cur == EXPECT_PRE.cur, "C01 the fibre dispatched is the head of the FIFO run queue after [atomic requests in arrival order, the fibre that yielded, the expired timeouts] joined its tail");
	VASSERT(eq_runq(&a, &EXPECT_PRE), "C01 the run queue at dispatch: atomic requests in arrival order, then the fibre that yielded, then the expired timeouts, coalesced with fibres already queued");
	VASSERT(eq_timerq(&a, &EXPECT_PRE), "C02 exactly the timeouts with due time at or before the time argument (cyclically) have expired, in due order; none early, none left behind");
	VASSERT(eq_pend(&a, &EXPECT_PRE), "C01 the pass has consumed the atomic run requests that were pending");
	VASSERT(eq_fibres(&a, &EXPECT_PRE), "C01 an exited or failed fibre restarts from its beginning; no other fibre field changes during the pass");
	VASSERT(a.now == EXPECT_PRE.now && a.taint == EXPECT_PRE.taint, "C01 the time base is the time argument during the dispatch");
	}
	/* what the body may do: anything that the API lets it do.  The result is any invariant state with the same
	 * current fibre and time base. */
	struct S b = a;
	b.nrq = IN.b_nrq;
	b.ntq = IN.b_ntq;
	b.np = IN.b_np;
	b.rcv = IN.b_rcv;
	b.taint = IN.b_taint;
	for (unsigned i = 0; i < NF; i++) {
		b.rq[i] = IN.b_rq[i];
		b.tq[i] = IN.b_tq[i];
		b.due[i] = member(IN.b_tq, IN.b_ntq <= NF ? IN.b_ntq : 0, i) ? b.now + IN.b_off[i] : IN.b_due[i];
	}
	for (unsigned i = 0; i < QD; i++)
		b.pend[i] = IN.b_pend[i];
	b.priv[a.cur] = IN.b_priv;
	VASSUME(wf_struct(&b) && wf_time(&b));
	VASSUME(IN.b_res <= FAILED);
	realise(&b);
	snap(&BODY_RAW);
	BODY_POST = b;
	body_result = IN.b_res;
	return body_result;
}

/* ------------------------------------------------------------------------------------ fibre_scheduler_next */
void h_next(void)
{
	load_state(&S0, true);
	/* the time argument: every pending due time within 2^31 ticks of it */
	int64_t T = IN.T;
	for (unsigned i = 0; i < NF; i++)
		if (i < S0.ntq) {
			int64_t o = (int64_t)(uint32_t)(S0.due[S0.tq[i]] - S0.now);
			VASSUME(o - T < 0x80000000ll && o - T > -0x80000000ll);
		}
	uint32_t t = S0.now + (uint32_t)IN.T;
	EXPECT_PRE = S0;
	s_next_pre(&EXPECT_PRE, t);
	body_called = false;
	uint32_t r = fibre_scheduler_next(t);
	struct S want;
	if (EXPECT_PRE.cur != NONE) {
		VASSERT(body_called, "C01 a pass with a runnable fibre dispatches it");
		want = BODY_POST;
		want.st = (uint8_t)body_result;
		VASSERT(fibre_self() == &F[EXPECT_PRE.cur], "C01 fibre_self names the fibre dispatched by the latest call");
		if (body_called)
			VASSERT(r == (body_result == YIELDED ? t : s_wakeup(&BODY_POST)),
				"C03 the call returns its time argument if the fibre yielded, else now if anything is runnable or requested, else the earliest pending due time, else now+0x7fffffff");
	} else {
		VASSERT(!body_called, "C01 a pass with nothing runnable dispatches nothing");
		want = EXPECT_PRE;
		VASSERT(fibre_self() == NULL, "C01 fibre_self names nothing after an idle call");
		VASSERT(r == s_wakeup(&EXPECT_PRE), "C03 an idle call returns now if a request is pending, else the earliest pending due time, else now+0x7fffffff");
	}
	if (EXPECT_PRE.cur == NONE) {
		check_post(&want, "");
	} else if (body_called) {
		/* the state the body left behind was realised by the body stub itself: comparing the raw memory with the
		 * snapshot taken there is the complete frame check and far cheaper than reading the state back through absS() */
		struct raw now_;
		snap(&now_);
		VASSERT(raw_eq(&now_, &BODY_RAW), "C01 after the dispatched fibre returns the pass changes nothing: queues, fibres, pending requests and time base stay as the fibre left them");
		VASSERT(kernel.state == (fibre_state_t)body_result && kernel.current == &F[EXPECT_PRE.cur], "C01 the scheduler records the result of the dispatched fibre and keeps it as the current fibre");
		(void)want;
	}
	VCOVER(S0.ntq < 1 || (S0.np >= 1 && S0.cur != NONE && S0.st == YIELDED && (int32_t)(S0.due[S0.tq[0]] - t) <= 0 && EXPECT_PRE.nrq >= 1), "atomic requests, a yield and an expiring timer in one pass");
	VCOVER(S0.nrq || S0.ntq || (S0.st == YIELDED && S0.np == 0 && S0.cur != NONE), "fast path");
	VCOVER(S0.ntq < 1 || S0.nrq >= 1 || EXPECT_PRE.cur == NONE, "idle pass with a sleeper");
	VCOVER(S0.ntq < 2 || (S0.due[S0.tq[0]] > 0xfffffff0u && S0.due[S0.tq[1]] < 16u), "due times straddle the 32-bit wrap");
	VCOVER(S0.ntq < 1 || IN.T < 0, "time argument before the previous one");
	VCOVER(S0.nrq < 1 || (S0.cur != NONE && S0.st == EXITED && member(S0.rq, S0.nrq, S0.cur)), "running fibre made runnable and then exited");
	VCOVER(S0.ntq < 1 || S0.due[S0.tq[0]] == t, "timeout expires exactly at the time argument");
}

/* ------------------------------------------------------------------------------------ handle_atomic_runq against its contract */
void h_drain(void)
{
	load_state(&S0, false);
	struct S want = S0;
	s_drain(&want);
	handle_atomic_runq();
	struct S got;
	bool ok = absS(&got);
	VASSERT(ok, "C01 handle_atomic_runq leaves the scheduler's queues well formed");
	VASSERT(!ok || eq_runq(&got, &want), "C01 accepted atomic run requests join the run queue in their order of arrival, coalescing with fibres already queued");
	VASSERT(!ok || eq_timerq(&got, &want), "C02 a fibre woken by an atomic run request loses its pending timeout");
	VASSERT(!ok || eq_pend(&got, &want), "C06 every request pending at entry is consumed exactly once and its slot released");
	VASSERT(!ok || (eq_fibres(&got, &want) && eq_kernel(&got, &want)), "C01 handle_atomic_runq changes nothing else");
	VCOVER(S0.np == PMAX, "as many requests as the tier allows");
	VCOVER(S0.np >= 2 && S0.pend[0] == S0.pend[1], "the same fibre requested twice");
	VCOVER(S0.ntq < 1 || (S0.np >= 1 && member(S0.tq, S0.ntq, S0.pend[0])), "request for a sleeping fibre");
	VCOVER(S0.np >= 2 && S0.rcv + S0.np > QD, "requests wrap around the 8-slot ring");
}

/* ------------------------------------------------------------------------------------ fibre_run / fibre_kill / fibre_timeout / fibre_run_atomic */
void h_run(void)
{
	load_state(&S0, true);
	unsigned f = IN.f;
	VASSUME(f < NF);
	struct S want = S0;
	s_run(&want, f);
	fibre_run(&F[f]);
	check_post(&want, "");
	VCOVER(S0.nrq < 1 || member(S0.rq, S0.nrq, f), "already queued");
	VCOVER(S0.ntq < 1 || (member(S0.tq, S0.ntq, f) && S0.np >= 1), "sleeping fibre, pending requests");
	VCOVER(f == S0.cur, "running fibre makes itself runnable");
}

void h_kill(void)
{
	load_state(&S0, true);
	unsigned f = IN.f;
	VASSUME(f < NF);
	struct S want = S0;
	bool wres = s_kill(&want, f);
	bool res = fibre_kill(&F[f]);
	VASSERT(res == wres, "C01 fibre_kill returns whether a run request or timeout was pending at the moment of the call (accepted atomic requests included)");
	check_post(&want, "");
	VCOVER(S0.nrq + S0.ntq >= NF || !wres, "nothing to withdraw");
	VCOVER(S0.ntq < 1 || (wres && member(S0.tq, S0.ntq, f)), "timeout withdrawn");
	VCOVER(S0.nrq + S0.ntq >= NF || (wres && !member(S0.rq, S0.nrq, f) && !member(S0.tq, S0.ntq, f)), "only an atomic request was pending");
}

void h_timeout(void)
{
	load_state(&S0, true);
	/* scope: called by the running fibre, at most one unsatisfied fibre_timeout per dispatch (it is not yet asleep) */
	VASSUME(S0.cur != NONE && !member(S0.tq, S0.ntq, S0.cur));
	uint32_t d = S0.now + (uint32_t)IN.d_off;
	struct S want = S0;
	bool wres = s_timeout(&want, d);
	bool res = fibre_timeout(d);
	VASSERT(res == wres, "C02 fibre_timeout returns true exactly when the due time is at or before the scheduler's time, cyclically");
	check_post(&want, "");
	VCOVER(S0.ntq < 2 || S0.nrq + S0.ntq >= NF || (!wres && want.tq[1] == S0.cur), "inserted between two sleepers");
	VCOVER(S0.ntq < 1 || S0.nrq + S0.ntq >= NF || (!wres && S0.due[S0.tq[0]] == d && want.tq[1] == S0.cur), "equal due times: after the earlier sleeper");
	VCOVER(S0.nrq < 1 || (!wres && member(S0.rq, S0.nrq, S0.cur)), "already runnable: no timeout registered");
	VCOVER(wres && IN.d_off == 0, "due now");
	VCOVER(!wres && d < S0.now, "due time beyond the 32-bit wrap");
}

void h_run_atomic(void)
{
	load_state(&S0, true);
	unsigned f = IN.f;
	VASSUME(f < NF);
	struct S want = S0;
	bool wres = S0.np < QD;
	if (wres) {
		want.pend[want.np] = (uint8_t)f;
		want.np++;
	} else {
		want.taint |= 1u << ('A' - 'A');
	}
	bool res = fibre_run_atomic(&F[f]);
	VASSERT(res == wres, "C06 fibre_run_atomic accepts the request unless 8 are already pending");
	check_post(&want, "");
#if PMAX >= QD
	VCOVER(!wres, "queue full");
#endif
	VCOVER(wres && S0.np == PMAX - 1, "last slot the tier allows");
}

/* ------------------------------------------------------------------------------------ initial state, fibre_init */
void h_initial(void)
{
	VERIF_LOAD_INPUTS();
	for (unsigned i = 0; i < NF; i++)
		fibre_init(&F[i], verif_body);
	struct S got;
	bool ok = absS(&got);
	VASSERT(ok && wf_time(&got), "C01 the static initial state of the scheduler satisfies the invariant");
	VASSERT(ok && got.nrq == 0 && got.ntq == 0 && got.np == 0 && got.cur == NONE && got.st == YIELDED, "C01 initially nothing is runnable, asleep or requested and no fibre is current");
	for (unsigned i = 0; i < NF; i++)
		VASSERT(F[i].priv == 0 && F[i].link.next == NULL && F[i].fn == verif_body, "C01 fibre_init yields a fibre that is on no queue and starts from its beginning");
}

/* ------------------------------------------------------------------------------------ comparators (C02), full domain */
void h_cmp(void)
{
	VERIF_LOAD_INPUTS();
	uint32_t a = IN.now, b = IN.taint;
	VASSERT(cyclecmp32(a, b) == (int32_t)(a - b), "C02 cyclecmp32 is the signed 32-bit difference (cyclic comparison)");
	F[0].duetime = a;
	F[1 % NF].duetime = b;
	int c = duetime_cmp(&F[0].link, &F[1 % NF].link);
	int64_t diff = (int64_t)(int32_t)(a - b);
	VASSERT((c < 0) == (diff < 0) && (c > 0) == (diff > 0), "C02 the timer queue is ordered by cyclic (signed-difference) comparison of due times");
	VCOVER(a < 16 && b > 0xfffffff0u, "operands straddle the wrap");
}

#ifdef C06_IRQ
/* ====================================================================================================================
 * C06 / C03: interruption.  Compiled against the shadow <stdatomic.h> (DESIGN P6): before every atomic operation of the
 * main context verif_env() runs the interrupt handlers that may fire there - run to completion (nested handlers are
 * handlers that fire inside handlers; by the time the main context resumes all of them are complete): each accepts
 * a new fibre_run_atomic request at the tail of the atomic run queue (or taints 'A' if it is full).  Nothing else is
 * shared, and main-context code owns nothing of a slot once it has released it: at the release the slot's payload is
 * overwritten with junk (coarsest rely).  Arrivals per call are bounded by AMAX (bounded stand-in for "any number").
 */
#ifndef AMAX
#define AMAX 2
#endif
#ifndef IRQ_BURST
#define IRQ_BURST 2 /* requests that may arrive at one interruption point */
#endif
static bool irq_on;
static unsigned env_calls, arrivals, handled, released, n_empty_checks;
static uint8_t arr_log[AMAX + 1];
static bool last_check_pending, first_check_pending, drain_called, my_claim_done;
static unsigned arrivals_before_my_claim, my_slot = NONE;
static const void *watch_or_obj; /* L4: the object whose fetch_or must come second */
static bool event_published;
static fibre_eventq_t EQ;
static uint32_t EB[4];

static void irq_arrivals(void)
{
	unsigned k = env_calls < 12 ? env_calls : 11;
	env_calls++;
	unsigned m = IN.e_m[k] % (IRQ_BURST + 1);
	for (unsigned j = 0; j < IRQ_BURST; j++) {
		if (j >= m || arrivals >= AMAX)
			continue;
		messageq_t *q = &kernel.atomic_runq;
		if (q->num_free.v > 0) {
			unsigned slot = q->sendp.v;
			uint8_t x = IN.e_f[arrivals < 12 ? arrivals : 11] % NF;
			atomic_runq_buf[slot] = &F[x];
			q->full_flags.v |= 1u << slot;
			q->sendp.v = (unsigned char)((slot + 1) % QD);
			q->num_free.v--;
			arr_log[arrivals] = x;
			arrivals++;
		} else {
			kernel.taint_flags.v |= 1u;
		}
	}
}

static bool step_mode;
static unsigned recv_attempts;
static void step_loop_head(void);

void verif_env(const void *obj, enum verif_op op, memory_order mo)
{
	(void)mo;
	if (!irq_on)
		return;
	if (step_mode && obj == &kernel.atomic_runq.full_flags && op == VOP_FETCH_AND && recv_attempts++ == 1)
		step_loop_head(); /* back at the head of the drain loop after one complete iteration: loop-cut rule (P7) */
	irq_arrivals();
}

void verif_post(const void *obj, enum verif_op op, memory_order mo, unsigned long long oldv, unsigned long long newv)
{
	(void)mo; (void)newv;
	messageq_t *q = &kernel.atomic_runq;
	if (!irq_on)
		return;
	if (obj == &q->full_flags && op == VOP_LOAD) { /* messageq_empty */
		bool pending = (oldv & (1u << q->receivep)) != 0;
		if (n_empty_checks == 0)
			first_check_pending = pending;
		last_check_pending = pending;
		n_empty_checks++;
	}
	if (obj == &q->full_flags && op == VOP_FETCH_AND && (oldv & ~newv))
		handled++; /* a successful receive */
	if (obj == &q->num_free && op == VOP_FETCH_ADD && handled > released) {
		released++;
		/* release: the main context no longer owns the slot before receivep - anything may happen to its payload */
		unsigned slot = (q->receivep + QD - 1) % QD;
		atomic_runq_buf[slot] = (IN.e_junk % (NF + 1)) < NF ? &F[IN.e_junk % (NF + 1)] : NULL;
	}
	if (obj == &q->sendp && op == VOP_CAS_OK) { /* fibre_run_atomic of the verified context claims its slot */
		my_slot = (unsigned)oldv;
		my_claim_done = true;
		arrivals_before_my_claim = arrivals;
	}
	if (obj == &q->full_flags && op == VOP_FETCH_OR && watch_or_obj)
		VASSERT(event_published, "C06 the event is published (its buffer marked sent) before the wake-up for its fibre is posted");
	if (obj == watch_or_obj && op == VOP_FETCH_OR)
		event_published = true;
}

static void irq_reset(void)
{
	env_calls = arrivals = handled = released = n_empty_checks = 0;
	last_check_pending = first_check_pending = drain_called = my_claim_done = false;
	my_slot = NONE;
	watch_or_obj = NULL;
	event_published = false;
}

/* pending requests as the sequence [those of the pre-state] ++ [arrivals], minus the first `done` */
static void s_irq_drain(struct S *s, unsigned done)
{
	uint8_t all[QD + AMAX + 1];
	unsigned n = 0;
	for (unsigned i = 0; i < QD; i++)
		if (i < s->np)
			all[n++] = s->pend[i];
	for (unsigned i = 0; i < AMAX; i++)
		if (i < arrivals)
			all[n++] = arr_log[i];
	for (unsigned i = 0; i < QD + AMAX; i++)
		if (i < done && i < n)
			s_make_runnable(s, all[i]);
	s->rcv = (uint8_t)((s->rcv + done) % QD);
	s->np = 0;
	for (unsigned i = 0; i < QD + AMAX; i++)
		if (i >= done && i < n && s->np < QD)
			s->pend[s->np++] = all[i];
}

/* L2: handle_atomic_runq while interrupt handlers keep posting requests */
void h_irq_drain(void)
{
	load_state(&S0, false);
	irq_reset();
	irq_on = true;
	handle_atomic_runq();
	irq_on = false;
	struct S want = S0, got;
	VASSERT(handled >= S0.np, "C06 every request pending when handle_atomic_runq starts is handled by it (none is lost)");
	VASSERT(handled <= S0.np + arrivals, "C06 no request is handled twice");
	s_irq_drain(&want, handled);
	want.taint = S0.taint | (ATOM(kernel.taint_flags) & 1u);
	bool ok = absS(&got);
	VASSERT(ok, "C06 the scheduler's own queues are never corrupted by the interruption");
	VASSERT(!ok || eq_runq(&got, &want), "C06 requests are made runnable in their order of arrival, each exactly once, from the payload they were posted with (read before the slot is released)");
	VASSERT(!ok || eq_timerq(&got, &want), "C06 a fibre woken from interrupt context loses its pending timeout");
	VASSERT(!ok || eq_pend(&got, &want), "C06 a request that arrives during the call is either handled or still pending afterwards, in order");
	VASSERT(!ok || (eq_fibres(&got, &want) && eq_kernel(&got, &want)), "C06 handle_atomic_runq changes nothing else");
	VCOVER(arrivals == AMAX && handled == S0.np + AMAX, "requests arriving during the drain are handled by it");
	VCOVER(arrivals == AMAX && handled == S0.np && S0.np >= 1, "requests arriving after the last receive stay pending");
	VCOVER(S0.np >= 1 && arrivals >= 1 && arr_log[0] == S0.pend[0], "the same fibre requested before and during the drain");
}

/* L2 without a bound on arrivals or iterations: ONE iteration of the drain loop from an arbitrary invariant state (any
 * number of requests pending, up to the queue's capacity; any number arriving at every interruption point, up to capacity).
 * The state at the loop head after the iteration is again an invariant state, related to the pre-state by "the oldest
 * pending request was made runnable from its own payload, everything else is still pending in order" - so the loop as a
 * whole satisfies the contract used by handle_atomic_runq_irq_contract by induction over iterations (partial correctness:
 * with requests arriving for ever the loop need not terminate). */
static void step_check(unsigned expect_handled, const char *unused)
{
	(void)unused;
	struct S want = S0, got;
	VASSERT(handled == expect_handled, "C06 one iteration of the drain loop handles exactly one request, and the loop ends only when none is pending");
	s_irq_drain(&want, handled);
	want.taint = S0.taint | (ATOM(kernel.taint_flags) & 1u);
	bool ok = absS(&got);
	VASSERT(ok, "C06 the scheduler's own queues are never corrupted by the interruption (loop-head invariant of the drain loop)");
	VASSERT(!ok || eq_runq(&got, &want), "C06 the oldest pending request is made runnable, exactly once, from the payload it was posted with (read before the slot is released)");
	VASSERT(!ok || eq_timerq(&got, &want), "C06 a fibre woken from interrupt context loses its pending timeout");
	VASSERT(!ok || eq_pend(&got, &want), "C06 every other request, including those that arrive during the iteration, is still pending afterwards, in order of arrival");
	VASSERT(!ok || (eq_fibres(&got, &want) && eq_kernel(&got, &want)), "C06 the drain loop changes nothing else");
}

static void step_loop_head(void)
{
	step_check(1, "");
	VCOVER(arrivals >= 3, "a burst of requests arrived during the iteration");
	VCOVER(S0.np == QD, "the queue was full when the iteration started");
	VASSUME(0);
}

void h_irq_drain_step(void)
{
	load_state(&S0, false);
	irq_reset();
	step_mode = true;
	recv_attempts = 0;
	irq_on = true;
	handle_atomic_runq();
	irq_on = false;
	step_mode = false;
	/* only reached when the very first receive found nothing pending */
	step_check(0, "");
	VCOVER(arrivals >= 1, "requests arrive just after the loop saw an empty queue: they stay pending");
}

/* contract of handle_atomic_runq under interruption, as established by h_irq_drain: handles everything present when it
 * starts and possibly later arrivals (first batch); arrivals after its last receive stay pending (second batch) */
void handle_atomic_runq_irq_contract(void)
{
	drain_called = true;
	irq_arrivals();
	struct S a;
	bool ok = absS(&a);
	VASSERT(ok, "C06 handle_atomic_runq is called with the scheduler's queues well formed (callee precondition)");
	if (!ok)
		VASSUME(0);
	s_drain(&a);
	realise(&a);
	irq_arrivals();
}

/* L3 + C03: a whole pass under interruption */
void h_irq_next(void)
{
	load_state(&S0, true);
	int64_t T = IN.T;
	for (unsigned i = 0; i < NF; i++)
		if (i < S0.ntq) {
			int64_t o = (int64_t)(uint32_t)(S0.due[S0.tq[i]] - S0.now);
			VASSUME(o - T < 0x80000000ll && o - T > -0x80000000ll);
		}
	uint32_t t = S0.now + (uint32_t)IN.T;
	irq_reset();
	body_called = false;
	irq_body = true;
	irq_on = true;
	uint32_t r = fibre_scheduler_next(t);
	irq_on = false;
	struct S got;
	bool ok;
	if (body_called) {
		/* the queues are as the dispatched fibre left them (raw comparison with the snapshot taken by the body stub) */
		struct raw now_;
		snap(&now_);
		ok = raw_eq_sched(&now_, &BODY_RAW);
		got = BODY_POST;
		VASSERT(ok, "C06 the scheduler's own queues are never corrupted by the interruption, wherever it occurs in a pass");
	} else {
		ok = absS(&got);
		VASSERT(ok && wf_time(&got), "C06 the scheduler's own queues are never corrupted by the interruption, wherever it occurs in a pass");
	}
	bool could_fast = S0.st == YIELDED && S0.nrq == 0 && S0.ntq == 0;
	VASSERT(drain_called || (could_fast && !first_check_pending), "C06 a request that is pending when the fast-path test looks at the atomic queue sends the pass down the slow path");
	bool yielded = body_called && body_result == YIELDED;
	if (yielded)
		VASSERT(r == t, "C03 the call returns its time argument when the dispatched fibre yielded");
	else if (ok) {
		VASSERT(!last_check_pending || r == t, "C03 an interrupt-context run request that completed before the scheduler's final check makes the call return its time argument (no oversleep)");
		if (!last_check_pending)
			VASSERT(r == (got.nrq ? t : got.ntq ? got.due[got.tq[0]] : t + 0x7fffffffu),
				"C03 otherwise the call returns now if a fibre is runnable, else the earliest pending due time, else now+0x7fffffff");
	}
	VCOVER(last_check_pending && !yielded && arrivals >= 1 && S0.np == 0, "request arrives between the drain and the final check");
	VCOVER(S0.ntq < 1 || (!last_check_pending && !yielded && arrivals >= 1), "request arrives after the final check: outside the statement");
	VCOVER(S0.nrq || S0.ntq || (could_fast && !drain_called && body_called), "fast path taken");
	VCOVER(S0.nrq || S0.ntq || (could_fast && drain_called && S0.np == 0), "fast path refused because of a request that arrived just before the test");
}

/* L1: fibre_run_atomic itself interrupted by handlers that post further requests */
void h_irq_run_atomic(void)
{
	load_state(&S0, true);
	unsigned f = IN.f;
	VASSUME(f < NF);
	irq_reset();
	irq_on = true;
	bool res = fibre_run_atomic(&F[f]);
	irq_on = false;
	struct S want = S0, got;
	uint8_t all[QD + AMAX + 2];
	unsigned n = 0;
	for (unsigned i = 0; i < QD; i++)
		if (i < S0.np)
			all[n++] = S0.pend[i];
	for (unsigned i = 0; i < AMAX; i++)
		if (i < arrivals && (!res || i < arrivals_before_my_claim))
			all[n++] = arr_log[i];
	if (res)
		all[n++] = (uint8_t)f;
	for (unsigned i = 0; i < AMAX; i++)
		if (res && i < arrivals && i >= arrivals_before_my_claim)
			all[n++] = arr_log[i];
	want.np = (uint8_t)(n <= QD ? n : QD);
	for (unsigned i = 0; i < QD; i++)
		if (i < n)
			want.pend[i] = all[i];
	bool ok = absS(&got);
	VASSERT(n <= QD, "C06 never more than 8 requests are accepted");
	VASSERT(ok, "C06 fibre_run_atomic leaves the atomic run queue and the scheduler's own queues well formed under interruption");
	want.taint = got.taint;
	VASSERT(!ok || eq_pend(&got, &want), "C06 an accepted request is queued exactly once, after every request accepted before it and before every later one; a refused request queues nothing");
	VASSERT(!ok || (eq_runq(&got, &want) && eq_timerq(&got, &want) && eq_fibres(&got, &want) && eq_kernel(&got, &want)),
		"C06 fibre_run_atomic touches nothing but the atomic run queue and the taint flags (the scheduler's own queues are never corrupted by the interruption)");
	VASSERT(res || (ATOM(kernel.taint_flags) & 1u), "C06 a refused request is recorded as taint 'A'");
	VASSERT(res || S0.np + arrivals >= QD, "C06 a request is refused only if the queue held 8 requests at that instant");
	VCOVER(res && arrivals == AMAX && arrivals_before_my_claim == 1, "handlers fire before and after the claim");
#if PMAX >= QD
	VCOVER(!res, "refused");
	VCOVER(res && S0.np + arrivals == QD, "last slot");
#endif
}

/* L4: fibre_eventq_send publishes the event before it posts the wake-up */
void h_irq_eventq_send(void)
{
	load_state(&S0, true);
	irq_reset();
	fibre_eventq_init(&EQ, verif_body, EB, sizeof(EB), sizeof(EB[0]));
	unsigned pre = IN.f % 4; /* arbitrary ring position of the event queue */
	for (unsigned i = 0; i < 3; i++)
		if (i < pre) {
			void *m = fibre_eventq_claim(&EQ);
			messageq_send(&EQ.eventq, m);
			(void)fibre_eventq_receive(&EQ);
			fibre_eventq_release(&EQ, m);
		}
	uint32_t *evt = fibre_eventq_claim(&EQ);
	VASSUME(evt != NULL);
	*evt = IN.now;
	unsigned eslot = (unsigned)(evt - EB);
	watch_or_obj = &EQ.eventq.full_flags;
	irq_on = true;
	bool res = fibre_eventq_send(&EQ, evt);
	irq_on = false;
	watch_or_obj = NULL;
	VASSERT((EQ.eventq.full_flags.v >> eslot) & 1u, "C06 the event is marked sent");
	VASSERT(EB[eslot] == IN.now, "C06 the event payload is what the sender wrote");
	if (res) {
		VASSERT(my_slot < QD && atomic_runq_buf[my_slot] == &EQ.fibre && ((kernel.atomic_runq.full_flags.v >> my_slot) & 1u),
			"C06 an accepted event leaves a pending wake-up for the event queue's fibre");
	} else {
		VASSERT(kernel.taint_flags.v & 1u, "C06 a refused wake-up is recorded as taint 'A'");
	}
	VASSERT(fibre_eventq_receive(&EQ) == evt, "C06 the event is received (once) by the fibre's next receive");
	VCOVER(res && arrivals >= 1, "interrupt between publish and wake-up");
	VCOVER(eslot == 3, "event in the last slot of its ring");
}
#define IRQ_ENTRIES E(h_irq_drain) E(h_irq_drain_step) E(h_irq_next) E(h_irq_run_atomic) E(h_irq_eventq_send)
#else
#define IRQ_ENTRIES
#endif /* C06_IRQ */

VERIF_ENTRIES(E(h_next) E(h_drain) E(h_run) E(h_kill) E(h_timeout) E(h_run_atomic) E(h_initial) E(h_cmp) IRQ_ENTRIES)
#ifndef VERIF_NATIVE
#pragma CPROVER check pop
#endif
