/*
 * C12 - pack/unpack: never leaves the buffer, fails stickily, fixed byte order.
 * Real code: /repo/librfn/pack.c (every function that has a body).
 *
 * Pattern P2 (harness-built state): a buffer of symbolic size 0..2^31-1 in an exactly-sized
 * object, cursor anywhere in 0..2^31-1 (including beyond the end = the sticky overflow
 * state), up to 8 symbolic bytes at the cursor, one watched byte anywhere else (P8).
 * The function's contract (contracts/pack_contract.h) is enforced by DFCC, which also
 * checks the frame (assigns clause); the same postcondition is repeated as VASSERTs so
 * that a counterexample can be replayed natively.
 */
#include <stdlib.h>
#include <string.h>
#include "pack_contract.h"
#include "librfn/pack.c"

#define IN_FIELDS(S, A)                                                                          \
	S(uint32_t, size) S(uint32_t, off) S(uint32_t, watch) A(uint8_t, content, 8)             \
	S(uint16_t, v16) S(uint32_t, v32) S(uint32_t, n) S(uint32_t, j) S(uint8_t, srcb)         \
	S(uint8_t, null_other) S(uint8_t, wbyte) S(uint32_t, size2)
VERIF_INPUTS(IN_FIELDS)

static uint8_t *BUF;
static rf_pack_t PK;
static uint8_t W0;

#define FITS(n) ((uint64_t)IN.off + (uint64_t)(n) <= (uint64_t)IN.size)
#define WATCHED_IN_ITEM(n) (IN.watch >= IN.off && (uint64_t)IN.watch < (uint64_t)IN.off + (uint64_t)(n))

/* total = bytes requested by the calls that follow; scope of the record: the running total stays below 2^31 */
static void build_cursor_n(uint64_t total)
{
	VASSUME(IN.size < 0x80000000u && (uint64_t)IN.off + total < 0x80000000ull);
	BUF = malloc(IN.size);
	VASSUME(BUF != NULL);
	for (unsigned i = 0; i < 8; i++)
		if ((uint64_t)IN.off + i < IN.size)
			BUF[IN.off + i] = IN.content[i];
	if (IN.watch < IN.size && !(IN.watch >= IN.off && IN.watch < IN.off + 8u)) {
		BUF[IN.watch] = IN.wbyte;
	}
	W0 = IN.watch < IN.size ? BUF[IN.watch] : 0;
	PK.basep = BUF;
	PK.endp = BUF + IN.size;
	PK.p = BUF + IN.off;
}

static void build_cursor(unsigned total)
{
	VERIF_LOAD_INPUTS();
	build_cursor_n(total);
}

/* common postcondition of an n-byte item; wrote = the item may write its own bytes */
static void check_item(unsigned n, bool wrote)
{
	VASSERT(PK.p == BUF + IN.off + n, "C12 the cursor advances by the requested size whether or not the item fits");
	VASSERT(PK.basep == BUF && PK.endp == BUF + IN.size, "C12 buffer bounds of the cursor are never modified");
	if (IN.watch < IN.size && !(wrote && FITS(n) && WATCHED_IN_ITEM(n)))
		VASSERT(BUF[IN.watch] == W0, "C12 no byte other than those of a fitting packed item is modified");
	VASSERT((long long)rf_pack_consumed(&PK) == (long long)IN.off + n, "C12 rf_pack_consumed counts every requested byte");
	VASSERT((long long)rf_pack_remaining(&PK) == (long long)IN.size - (long long)IN.off - n,
		"C12 rf_pack_remaining goes negative after an overflow");
	VCOVER(FITS(n) && (uint64_t)IN.off + n == IN.size, "exact fit");
	VCOVER(!FITS(n) && IN.off < IN.size, "item straddles the end");
	VCOVER(IN.off > IN.size, "cursor already past the end");
	VCOVER(IN.size == 0, "empty buffer");
}

void h_pack_s16le(void)
{
	build_cursor(2);
	rf_pack_s16le(&PK, (int16_t)IN.v16);
	if (FITS(2))
		VASSERT(BUF[IN.off] == (IN.v16 & 0xff) && BUF[IN.off + 1] == (IN.v16 >> 8), "C12 rf_pack_s16le: least significant byte first");
	check_item(2, true);
}

void h_pack_u16be(void)
{
	build_cursor(2);
	rf_pack_u16be(&PK, IN.v16);
	if (FITS(2))
		VASSERT(BUF[IN.off] == (IN.v16 >> 8) && BUF[IN.off + 1] == (IN.v16 & 0xff), "C12 rf_pack_u16be: most significant byte first");
	check_item(2, true);
}

void h_pack_u16le(void)
{
	build_cursor(2);
	rf_pack_u16le(&PK, IN.v16);
	if (FITS(2))
		VASSERT(BUF[IN.off] == (IN.v16 & 0xff) && BUF[IN.off + 1] == (IN.v16 >> 8), "C12 rf_pack_u16le: least significant byte first");
	check_item(2, true);
}

void h_pack_s32le(void)
{
	build_cursor(4);
	rf_pack_s32le(&PK, (int32_t)IN.v32);
	if (FITS(4))
		VASSERT(BUF[IN.off] == (IN.v32 & 0xff) && BUF[IN.off + 1] == ((IN.v32 >> 8) & 0xff) &&
			BUF[IN.off + 2] == ((IN.v32 >> 16) & 0xff) && BUF[IN.off + 3] == (IN.v32 >> 24),
			"C12 rf_pack_s32le: least significant byte first");
	check_item(4, true);
}

void h_pack_u32le(void)
{
	build_cursor(4);
	rf_pack_u32le(&PK, IN.v32);
	if (FITS(4))
		VASSERT(BUF[IN.off] == (IN.v32 & 0xff) && BUF[IN.off + 1] == ((IN.v32 >> 8) & 0xff) &&
			BUF[IN.off + 2] == ((IN.v32 >> 16) & 0xff) && BUF[IN.off + 3] == (IN.v32 >> 24),
			"C12 rf_pack_u32le: least significant byte first");
	check_item(4, true);
}

void h_unpack_char(void)
{
	build_cursor(1);
	char c = rf_unpack_char(&PK);
	VASSERT(c == (FITS(1) ? (char)IN.content[0] : 0), "C12 rf_unpack_char: the byte at the cursor, or 0 when it does not fit");
	check_item(1, false);
}

void h_unpack_s8(void)
{
	build_cursor(1);
	int8_t v = rf_unpack_s8(&PK);
	VASSERT(v == (FITS(1) ? (int8_t)IN.content[0] : 0), "C12 rf_unpack_s8: the byte at the cursor sign-extended, or 0 when it does not fit");
	check_item(1, false);
}

void h_unpack_u8(void)
{
	build_cursor(1);
	uint8_t v = rf_unpack_u8(&PK);
	VASSERT(v == (FITS(1) ? IN.content[0] : 0), "C12 rf_unpack_u8: the byte at the cursor as 0..255, or 0 when it does not fit");
	check_item(1, false);
}

void h_unpack_u16le(void)
{
	build_cursor(2);
	uint16_t v = rf_unpack_u16le(&PK);
	VASSERT(v == (FITS(2) ? IN.content[0] + 256u * IN.content[1] : 0), "C12 rf_unpack_u16le: little-endian value, or 0 when it does not fit");
	check_item(2, false);
}

void h_unpack_u32le(void)
{
	build_cursor(4);
	uint32_t v = rf_unpack_u32le(&PK);
	VASSERT(v == (FITS(4) ? IN.content[0] + 256u * IN.content[1] + 65536u * IN.content[2] + 16777216u * IN.content[3] : 0),
		"C12 rf_unpack_u32le: little-endian value, or 0 when it does not fit");
	check_item(4, false);
}

/* byte arrays: symbolic length below 2^31, NULL and non-NULL other side, content at one watched index j */
void h_pack_bytes(void)
{
	VERIF_LOAD_INPUTS();
	VASSUME(IN.n < 0x80000000u && IN.j < IN.n);
	build_cursor_n(IN.n);
	uint8_t *src = IN.null_other ? NULL : malloc(IN.n);
	VASSUME(IN.null_other || src != NULL);
	if (src)
		src[IN.j] = IN.srcb;
	rf_pack_bytes(&PK, src, IN.n);
	if (FITS(IN.n))
		VASSERT(BUF[IN.off + IN.j] == (src ? IN.srcb : 0), "C12 rf_pack_bytes copies the source bytes in order; a NULL source packs zeros");
	if (src)
		VASSERT(src[IN.j] == IN.srcb, "C12 rf_pack_bytes does not modify its source");
	check_item(IN.n, true);
	VCOVER(IN.n > 0x40000000u && FITS(IN.n), "a very large array that fits");
}

void h_pack_bytes_empty(void)
{
	build_cursor(0);
	rf_pack_bytes(&PK, NULL, 0);
	check_item(0, true);
}

void h_unpack_bytes(void)
{
	VERIF_LOAD_INPUTS();
	VASSUME(IN.n < 0x80000000u && IN.j < IN.n);
	build_cursor_n(IN.n);
	uint8_t *dst = IN.null_other ? NULL : malloc(IN.n);
	VASSUME(IN.null_other || dst != NULL);
	uint8_t expect = 0;
	if (FITS(IN.n)) {
		if (IN.j >= 8)
			BUF[IN.off + IN.j] = IN.srcb;
		expect = BUF[IN.off + IN.j];
		if (IN.watch < IN.size)
			W0 = BUF[IN.watch];
	}
	if (dst)
		dst[IN.j] = (uint8_t)~expect;
	rf_unpack_bytes(&PK, dst, IN.n);
	if (dst)
		VASSERT(dst[IN.j] == expect, "C12 rf_unpack_bytes copies the bytes at the cursor in order, or zero-fills the output when they do not fit");
	check_item(IN.n, false);
	VCOVER(!FITS(IN.n) && dst != NULL, "zero fill");
}

/* rf_pack_init on a structure with arbitrary prior contents */
void h_pack_init(void)
{
	VERIF_LOAD_INPUTS();
	VASSUME(IN.size < 0x80000000u);
	BUF = malloc(IN.size);
	VASSUME(BUF != NULL);
	rf_pack_t pk;
	rf_pack_init(&pk, BUF, IN.size);
	VASSERT(pk.basep == BUF && pk.p == BUF && pk.endp == BUF + IN.size, "C12 rf_pack_init: cursor at the start of exactly sz bytes");
	VASSERT(rf_pack_consumed(&pk) == 0 && (long long)rf_pack_remaining(&pk) == (long long)IN.size, "C12 rf_pack_init: nothing consumed, everything remaining");
}

/*
 * Lemmas over the contracts only (callees substituted by contract, DESIGN P3):
 * stickiness and round trips.
 */
void h_sticky(void)
{
	build_cursor(10);
	rf_pack_u16le(&PK, IN.v16);
	bool first_fitted = FITS(2);
	uint8_t w1 = IN.watch < IN.size ? BUF[IN.watch] : 0;
	uint32_t v = rf_unpack_u32le(&PK);
	rf_pack_u32le(&PK, IN.v32);
	if (!first_fitted) {
		VASSERT(v == 0, "C12 once an item did not fit, a later unpack transfers nothing (reads as zero)");
		if (IN.watch < IN.size)
			VASSERT(BUF[IN.watch] == w1, "C12 once an item did not fit, a later pack transfers nothing");
	}
	VASSERT(PK.p == BUF + IN.off + 10, "C12 the cursor keeps counting every requested byte after an overflow");
}

void h_roundtrip(void)
{
	build_cursor(12);
	VASSUME(FITS(12));
	rf_pack_u16le(&PK, IN.v16);
	rf_pack_u32le(&PK, IN.v32);
	rf_pack_s16le(&PK, (int16_t)IN.v16);
	rf_pack_s32le(&PK, (int32_t)IN.v32);
	PK.p = BUF + IN.off;
	uint16_t a = rf_unpack_u16le(&PK);
	uint32_t b = rf_unpack_u32le(&PK);
	uint16_t c = rf_unpack_u16le(&PK);
	uint32_t d = rf_unpack_u32le(&PK);
	VASSERT(a == IN.v16 && b == IN.v32, "C12 unpacking what was packed returns the original values (u16le, u32le back to back)");
	VASSERT((int16_t)c == (int16_t)IN.v16 && (int32_t)d == (int32_t)IN.v32, "C12 signed little-endian items round-trip through the unsigned unpackers");
}

VERIF_ENTRIES(E(h_pack_s16le) E(h_pack_u16be) E(h_pack_u16le) E(h_pack_s32le) E(h_pack_u32le) E(h_unpack_char) E(h_unpack_s8)
	      E(h_unpack_u8) E(h_unpack_u16le) E(h_unpack_u32le) E(h_pack_bytes) E(h_pack_bytes_empty) E(h_unpack_bytes)
	      E(h_pack_init) E(h_sticky) E(h_roundtrip))
