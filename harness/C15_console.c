/*
 * C15 - console: line editing, tokenising and dispatch are exact and memory-safe.
 * Real code: /repo/librfn/console.c (+ /repo/librfn/ringbuf.c), reached by textual inclusion.
 *
 * External, stubbed (not verified here): fprintf / fflush (recorded: which message, how often), console_hwinit,
 * fibre_init / fibre_run / fibre_run_atomic (C01-C03; recorded: how often the console fibre was made runnable).
 *
 * Route (DESIGN 5.C15): the monolithic per-character step with tokenizer, lookup and command inlined does not finish,
 * so console_run is verified with do_tokenize / find_command / do_prompt substituted by contract stubs
 * (--replace-calls, contracts/console_contract.h) and the command by cmd_generic (the command contract: any return
 * code, may scribble on the scratch union and c->pt); each callee is verified against the same contract in a harness
 * of its own below.  Entries:
 *
 *   h_run_init     base case: console_init (any prior content of the object), first console_run reaches the wait point
 *   h_run_wait     step: any invariant state at the wait point, any next character
 *   h_run_spawn    step: a command that yielded / waits is resumed
 *   h_process      console_process: character into the ring, console run until it no longer yields
 *   h_prompt       do_prompt contract
 *   h_tokenize     do_tokenize contract on every 80-byte buffer content (complete: loop bound 80 is a constant)
 *   h_tok_equiv    do_tokenize against a reference tokenizer written from the statement (bounded: short lines)
 *   h_find         find_command contract (table of any fill, names bounded)
 *   h_register     console_register contract (table of any fill, full table, names bounded)
 *   h_table_init   the static initial table satisfies the table invariant
 *   h_builtin      the built-in commands echo / unknown under the command contract
 *   h_putchar      console_putchar: byte into the ring, fibre made runnable
 *   h_eval_step    console_eval: one invocation from its start or its yield point (memory safety, frame)
 *   h_eval_seq     console_eval + console fibre, sequence level: text delivered once, injection completes (bounded)
 *
 * The resume labels of console_run / console_eval are __LINE__-derived; they are learnt by running the real function
 * once (learn_labels), never hard-coded.
 */
#include <assert.h>
#include <ctype.h>
#include <stdio.h>
#include <stdlib.h>
#include <string.h>
#include "verif.h"

#if defined(VERIF_ILP32) && !defined(VERIF_NATIVE)
/*
 * ILP32 queries (goto-cc --i386-linux): cbmc cannot build its own C library models for this data model on this machine
 * (the 32-bit libc headers are absent), so the few library functions console.c / ringbuf.c / this harness use are
 * modelled here, straight from their specification.  Trusted, like CBMC's own models in the LP64 queries.
 */
void *memset(void *s, int c, size_t n)
{
	if (n > 0) { /* as cbmc's own model: whole-array primitives, which keep constant propagation alive */
		(void)*(char *)s;
		(void)*(((char *)s) + n - 1);
		unsigned char s_n[n];
		__CPROVER_array_set(s_n, (unsigned char)c);
		__CPROVER_array_replace((unsigned char *)s, s_n);
	}
	return s;
}
void *memcpy(void *d, const void *s, size_t n)
{
	if (n > 0) {
		(void)*(char *)d;
		(void)*(const char *)s;
		(void)*(((char *)d) + n - 1);
		(void)*(((const char *)s) + n - 1);
		char src_n[n];
		__CPROVER_array_copy(src_n, (char *)s);
		__CPROVER_array_replace((char *)d, src_n);
	}
	return d;
}
int memcmp(const void *a, const void *b, size_t n)
{
	for (size_t i = 0; i < n; i++) {
		unsigned char x = ((const unsigned char *)a)[i], y = ((const unsigned char *)b)[i];
		if (x != y)
			return x < y ? -1 : 1;
	}
	return 0;
}
size_t strlen(const char *s)
{
	size_t n = 0;
	while (s[n])
		n++;
	return n;
}
int strcmp(const char *a, const char *b)
{
	for (size_t i = 0;; i++) {
		unsigned char x = (unsigned char)a[i], y = (unsigned char)b[i];
		if (x != y)
			return x < y ? -1 : 1;
		if (!x)
			return 0;
	}
}
int strncmp(const char *a, const char *b, size_t n)
{
	for (size_t i = 0; i < n; i++) {
		unsigned char x = (unsigned char)a[i], y = (unsigned char)b[i];
		if (x != y)
			return x < y ? -1 : 1;
		if (!x)
			return 0;
	}
	return 0;
}
int isspace(int c) { return c == ' ' || c == '\t' || c == '\n' || c == '\v' || c == '\f' || c == '\r'; }
#endif

/* ---------------------------------------------------------------------------------- external I/O, recorded */
static unsigned out_prompt, out_unknown, out_failed, out_other, out_flush;
static unsigned seq_no, prompt_at; /* order of the observable events of one invocation */
static int verif_out(FILE *f, const char *fmt, ...)
{
	(void)f;
	/* the messages of console.c differ in their first character */
	if (fmt[0] == '%') {
		out_prompt++;
		prompt_at = ++seq_no;
	} else if (fmt[0] == 'U')
		out_unknown++;
	else if (fmt[0] == 'C')
		out_failed++;
	else
		out_other++;
	return 0;
}
static int verif_flush(FILE *f)
{
	(void)f;
	out_flush++;
	return 0;
}

#include "librfn/console.h"
static unsigned fibre_runs;
void console_hwinit(console_t *c) { (void)c; }
void fibre_init(fibre_t *f, fibre_entrypoint_t *fn)
{
	memset(f, 0, sizeof(*f));
	f->fn = fn;
}
void fibre_run(fibre_t *f)
{
	(void)f;
	fibre_runs++;
}
bool fibre_run_atomic(fibre_t *f)
{
	(void)f;
	fibre_runs++;
	return true;
}

#include "librfn/ringbuf.c"
#define fprintf verif_out
#define fflush verif_flush
#include "librfn/console.c"
#undef fprintf
#undef fflush
#include "console_contract.h"

/* ---------------------------------------------------------------------------------- inputs */
#define NNAME 5   /* command names: at most 4 characters + NUL (bound of the table harnesses) */
#ifndef EQ_LEN
#define EQ_LEN 8  /* h_tok_equiv: line length */
#endif
#ifndef TEXT_LEN
#define TEXT_LEN 6 /* h_eval_seq: injected text */
#endif
#ifndef EVQ_PREFILL
#define EVQ_PREFILL 12 /* h_eval_seq: unread characters in the ring when the injection starts (room for 3) */
#endif
#ifndef STREAM_LEN
#define STREAM_LEN 5 /* h_stream */
#endif
#ifndef EVS_LEN
#define EVS_LEN 6 /* h_eval_step: injected text (the ring may be nearly full at the start, so short texts yield as well) */
#endif
#define TEXT_MAX 24

#define IN_FIELDS(S, A)                                                                                       \
	A(uint8_t, line, 80) A(uint8_t, pad, 80) S(uint8_t, cursor) S(uint8_t, ch) S(uint8_t, readi) S(uint8_t, nring) \
	A(uint8_t, ringbytes, 16) S(int32_t, argc) A(uint8_t, argoff, 4) S(uint16_t, pt) S(uint16_t, f_state)    \
	S(uint32_t, f_duetime) S(uint8_t, cmd_ret) S(uint8_t, scribble) S(uint8_t, scr_idx) S(uint8_t, scr_val)    \
	S(uint16_t, cmd_pt) S(uint8_t, find_k) S(uint8_t, ntab) A(uint8_t, names, 32 * NNAME) A(uint8_t, newname, NNAME) \
	S(uint8_t, silent) A(uint8_t, text, TEXT_MAX) S(uint8_t, len) S(uint8_t, evcur) S(uint8_t, which)         \
	S(uint8_t, garbage)
VERIF_INPUTS(IN_FIELDS)

static console_t C;
static const char PROMPT[] = "> ";

static unsigned ring_r(console_t *c) { return atomic_load(&c->ring.readi); }
static unsigned ring_w(console_t *c) { return atomic_load(&c->ring.writei); }

/* ---------------------------------------------------------------------------------- the command contract */
static pt_state_t gen_ret;                       /* what the command returns this time */
static unsigned gen_yields;
static bool gen_scribble; static unsigned gen_idx; static uint8_t gen_val; static pt_t gen_pt;
static unsigned cmd_calls, cmd_at, tok_calls, tok_at, find_calls, find_at, prompt_calls;
static bool cmd_args_ok, cmd_fresh, cmd_pt_zero;
static const console_cmd_t *cmd_seen;
static uint8_t expect_line[CON_LINE]; /* the line as edited, as the harness knows it */
static bool tok_line_ok;
/* obligations observed through the contract stubs: natively the real callees run instead and feed no observer */
#ifndef VERIF_NATIVE
#define OBS(c) (c)
#else
#define OBS(c) ((c) || 1)
#endif

static bool args_ok(const console_t *c)
{
	return tok_post_args(c);
}

static pt_state_t cmd_generic(console_t *c)
{
	cmd_calls++;
	cmd_at = ++seq_no;
	cmd_seen = c->cmd;
	if (cmd_fresh) { /* first call after a dispatch: what the command is entered with */
		cmd_args_ok = args_ok(c);
		cmd_pt_zero = c->pt == 0;
		cmd_fresh = false;
	}
	if (gen_scribble)
		((uint8_t *)&c->scratch)[gen_idx % sizeof(c->scratch)] = gen_val;
	c->pt = gen_pt;
	if (gen_yields > 0) { /* h_process: yields this many times before it returns gen_ret */
		gen_yields--;
		return PT_YIELDED;
	}
	return gen_ret;
}

/* ---------------------------------------------------------------------------------- table built from integers */
static console_cmd_t POOL[TBL_SLOTS];
static char NAMES[TBL_SLOTS][NNAME];
static console_cmd_t NEWCMD;
static char NEWNAME[NNAME];

/* n registered commands POOL[0..n-1] (fn = cmd_generic), then the real sentinel, then NULL */
static void table_of(unsigned n)
{
	for (unsigned i = 0; i < TBL_SLOTS; i++) {
		POOL[i].name = NAMES[i];
		POOL[i].fn = cmd_generic;
		cmd_table[i] = i < n ? &POOL[i] : i == n ? &cmd_unknown : NULL;
	}
}
static void small_table(void) /* "x", sentinel: the run harnesses (console_run never looks into the table itself) */
{
	for (unsigned j = 0; j < NNAME; j++)
		NAMES[0][j] = j == 0 ? 'x' : 0;
	table_of(1);
}
#ifndef RUN_K
#define RUN_K 0
#endif

/* ---------------------------------------------------------------------------------- contract stubs (CBMC only) */
#ifndef VERIF_NATIVE
_Bool nondet_bool(void);
int nondet_int(void);
unsigned nondet_unsigned(void);
/*
 * find_command's contract leaves open WHICH entry up to the sentinel is selected.  console_run calls the selected
 * handler through a function pointer, and CBMC explores every address-taken function of a compatible type (the
 * built-ins with their loops, even console_fibre_endpoint -> console_run recursively) unless the pointer is a constant
 * during symbolic execution.  The choice is therefore made by the harness: the run harnesses exist once per choice
 * (-DRUN_K=0: a registered command = the most general command cmd_generic, -DRUN_K=1: the sentinel), over the
 * table { "x", sentinel } - the case split is complete for that table and console_run never looks into the table.
 */
static int stub_k;

struct line80 {
	char b[CON_LINE];
};
struct line80 nondet_line80(void);
void do_tokenize_contract(console_t *c);
void do_tokenize_contract(console_t *c)
{
	VASSERT(TOK_PRE(c), "C15 do_tokenize is called with the last byte of the line buffer NUL (precondition of its contract)");
	tok_calls++;
	tok_at = ++seq_no;
	cmd_fresh = true;
	/* the line is read and written as a whole (one aggregate copy each way is far cheaper than 80 byte accesses into the union) */
	struct line80 old = *(struct line80 *)c->scratch.buf, new = nondet_line80();
	for (int j = 0; j < CON_LINE; j++) {
		tok_line_ok = tok_line_ok && (uint8_t)old.b[j] == expect_line[j];
		/* TOK post, line: separators and quotes become NUL, everything else stays; bytes 0 and 79 are not written */
		__CPROVER_assume(new.b[j] == old.b[j] || (new.b[j] == 0 && j != 0));
	}
	*(struct line80 *)c->scratch.buf = new;
	int n = nondet_int();
	__CPROVER_assume(n >= 1 && n <= CON_ARGS);
	c->argc = n;
	unsigned z = nondet_unsigned(); /* a NUL inside the line for the unused arguments */
	__CPROVER_assume(z <= CON_LAST && new.b[z] == 0);
	c->argv[0] = c->scratch.buf;
	for (int i = 1; i < CON_ARGS; i++) {
		unsigned o = nondet_unsigned();
		__CPROVER_assume(o <= CON_LAST);
		c->argv[i] = c->scratch.buf + (i < n ? o : z);
	}
}

void find_command_contract(console_t *c);
void find_command_contract(console_t *c)
{
	/* the table part of FIND_PRE is static state console_run has no access path to: it is asserted by the harness after the run */
	VASSERT(c->argv[0] == c->scratch.buf && CON_LAST_NUL(c), "C15 find_command is called with argv[0] the NUL-terminated string at the start of the line buffer (precondition of its contract)");
	find_calls++;
	find_at = ++seq_no;
	int s = tbl_sentinel();
	VASSERT(stub_k >= 0 && stub_k <= s, "C15 set-up: the harness chooses an entry up to the sentinel");
	c->cmd = stub_k == 0 ? cmd_table[0] : cmd_table[1];
}

void do_prompt_contract(console_t *c);
void do_prompt_contract(console_t *c)
{
	prompt_calls++;
	out_prompt++;
	prompt_at = ++seq_no;
	memset(&c->scratch, 0, sizeof(c->scratch));
	c->bufp = c->scratch.buf;
}
#define STUB_K(k) (stub_k = (k))
#else
#define STUB_K(k) ((void)0)
#endif

static void reset_observers(void)
{
	out_prompt = out_unknown = out_failed = out_other = out_flush = 0;
	seq_no = prompt_at = cmd_calls = cmd_at = tok_calls = tok_at = find_calls = find_at = prompt_calls = 0;
	cmd_fresh = false;
	cmd_args_ok = cmd_pt_zero = tok_line_ok = true;
	cmd_seen = NULL;
	fibre_runs = 0;
}

/* ---------------------------------------------------------------------------------- resume labels, learnt */
static pt_t lbl_wait, lbl_spawn, lbl_eval;
static bool learn_ok;

static void learn_labels(void)
{
	small_table();
	memset(&C, 0, sizeof(C));
	ringbuf_init(&C.ring, C.ringbuf, sizeof(C.ringbuf));
	C.prompt = PROMPT;
	C.argc = 1; /* console_silent */
	gen_ret = PT_YIELDED;
	gen_scribble = false;
	gen_pt = 0;
	gen_yields = 0;
	STUB_K(0);
	learn_ok = console_run(&C) == PT_WAITING; /* empty ring: the wait point */
	lbl_wait = C.fibre.priv;
	learn_ok = learn_ok && ringbuf_put(&C.ring, 'x') && ringbuf_put(&C.ring, '\n');
	learn_ok = learn_ok && console_run(&C) == PT_YIELDED; /* the command "x" yields: the spawn point */
	lbl_spawn = C.fibre.priv;
	learn_ok = learn_ok && lbl_wait != 0 && lbl_spawn != 0 && lbl_wait != lbl_spawn;
	STUB_K(RUN_K);
}
/* console_eval: a text that does not fit into what is left of the ring makes it yield */
static void learn_eval_label(void)
{
	static const char two[] = "ab";
	pt_t ept;
	memset(&C, 0, sizeof(C));
	ringbuf_init(&C.ring, C.ringbuf, sizeof(C.ringbuf));
	for (unsigned j = 0; j + 2 < sizeof(C.ringbuf); j++)
		learn_ok = learn_ok && ringbuf_put(&C.ring, '.'); /* room for one more */
	PT_INIT(&ept);
	learn_ok = learn_ok && console_eval(&ept, &C, two) == PT_YIELDED;
	lbl_eval = ept;
	learn_ok = learn_ok && lbl_eval != 0;
}
#define LEARNT() VASSERT(learn_ok, "C15 set-up: running the real console_run / console_eval once stops at the wait, spawn and yield points with the expected codes")

/* ---------------------------------------------------------------------------------- arbitrary console states */
static void havoc_console(void)
{
#ifndef VERIF_NATIVE
	__CPROVER_havoc_object(&C); /* statics are zero-initialised: havoc explicitly; every pointer member is then built below */
#else
	memset(&C, IN.garbage, sizeof(C));
#endif
}

/* everything except the protothread position and the line: fibre descriptor, ring with `nring` unread bytes, stale arguments */
static void arbitrary_console(unsigned nring)
{
	havoc_console();
	C.fibre.fn = console_fibre_endpoint;
	C.fibre.state = IN.f_state;
	C.fibre.duetime = IN.f_duetime;
	C.fibre.link.next = NULL;
	C.prompt = PROMPT;
	C.out = NULL;
	VASSUME(IN.readi < sizeof(C.ringbuf));
	for (unsigned i = 0; i < sizeof(C.ringbuf); i++)
		C.ringbuf[i] = (char)IN.ringbytes[i];
	C.ring.bufp = (uint8_t *)C.ringbuf;
	C.ring.buf_len = sizeof(C.ringbuf);
	atomic_store(&C.ring.readi, IN.readi);
	atomic_store(&C.ring.writei, (IN.readi + nring) % sizeof(C.ringbuf));
	/* stale arguments of an earlier command: anywhere in the line buffer */
	C.argc = IN.argc;
	for (int i = 0; i < CON_ARGS; i++) {
		VASSUME(IN.argoff[i] <= CON_LAST);
		C.argv[i] = C.scratch.buf + IN.argoff[i];
	}
	C.cmd = &POOL[0];
	C.pt = IN.pt;
	for (unsigned j = 0; j < CON_LINE; j++) {
		C.scratch.buf[j] = (char)IN.line[j];
		if (CON_LINE + j < sizeof(C.scratch)) /* LP64: the union is 160 bytes */
			((uint8_t *)&C.scratch)[CON_LINE + j] = IN.pad[j];
	}
}

/* the line buffer holds the edited line line[0..cursor) and zeros after it */
static void line_with_cursor(void)
{
	VASSUME(IN.cursor <= CON_LAST);
	for (unsigned j = 0; j < CON_LINE; j++)
		if (j >= IN.cursor)
			C.scratch.buf[j] = 0;
	C.bufp = C.scratch.buf + IN.cursor;
}

struct snap {
	fibre_t fibre;
	const char *prompt;
	FILE *out;
	char ringbuf[16];
	uint8_t *rbufp;
	size_t rlen;
	unsigned readi, writei;
	uint8_t scratch[sizeof(C.scratch)];
	char *bufp;
	int argc;
	char *argv[CON_ARGS];
	const console_cmd_t *cmd;
	pt_t pt;
};
static struct snap snap_of(void)
{
	struct snap s;
	s.fibre = C.fibre;
	s.prompt = C.prompt;
	s.out = C.out;
	memcpy(s.ringbuf, C.ringbuf, sizeof(s.ringbuf));
	s.rbufp = C.ring.bufp;
	s.rlen = C.ring.buf_len;
	s.readi = ring_r(&C);
	s.writei = ring_w(&C);
	memcpy(s.scratch, &C.scratch, sizeof(s.scratch));
	s.bufp = C.bufp;
	s.argc = C.argc;
	for (int i = 0; i < CON_ARGS; i++)
		s.argv[i] = C.argv[i];
	s.cmd = C.cmd;
	s.pt = C.pt;
	return s;
}
/* fields no console function but console_init may ever write: fibre descriptor except priv, prompt, out, ring geometry */
static bool fixed_part_same(const struct snap *s)
{
	return C.fibre.fn == s->fibre.fn && C.fibre.state == s->fibre.state && C.fibre.duetime == s->fibre.duetime &&
	       C.fibre.link.next == s->fibre.link.next && C.prompt == s->prompt && C.out == s->out &&
	       C.ring.bufp == s->rbufp && C.ring.buf_len == s->rlen;
}
static bool ring_bytes_same(const struct snap *s)
{
	return memcmp(C.ringbuf, s->ringbuf, sizeof(s->ringbuf)) == 0;
}
static bool scratch_same(const struct snap *s, unsigned from, unsigned to) /* bytes [from, to) */
{
	bool ok = true;
	for (unsigned j = 0; j < sizeof(C.scratch); j++)
		ok = ok && (j < from || j >= to || ((const uint8_t *)&C.scratch)[j] == s->scratch[j]);
	return ok;
}
static bool args_same(const struct snap *s)
{
	bool ok = C.argc == s->argc;
	for (int i = 0; i < CON_ARGS; i++)
		ok = ok && C.argv[i] == s->argv[i];
	return ok;
}
#define AT_WAIT_EMPTY(r) ((r) == PT_WAITING && C.fibre.priv == lbl_wait && ring_r(&C) == ring_w(&C))

static void command_from_inputs(void)
{
	VASSUME(IN.cmd_ret <= PT_FAILED);
	gen_ret = (pt_state_t)IN.cmd_ret;
	gen_scribble = IN.scribble & 1;
	gen_idx = IN.scr_idx;
	gen_val = IN.scr_val;
	gen_pt = IN.cmd_pt;
	gen_yields = 0;
}

/* after a command has run to its end the console is ready for the next line */
static void check_ready_for_next_line(pt_state_t r, pt_state_t cmd_code)
{
	VASSERT(prompt_post(&C) && out_prompt == 1 && OBS(prompt_at == seq_no),
		"C15 after the command has exited the line buffer is cleared, the cursor returns to its start and the prompt is shown");
	VASSERT(OBS(out_failed == (cmd_code == PT_FAILED ? 1u : 0u)), "C15 a failed command is reported, one that exits normally is not");
	VASSERT(AT_WAIT_EMPTY(r), "C15 console_run consumes the character and waits for the next one");
	VASSERT(con_tail_zero(&C) && CON_LAST_NUL(&C) && CON_CURSOR_OK(&C), "C15 console invariant re-established after a dispatch: empty line, cursor at its start, buf[79] == 0");
}

/* ================================================================================================ console_run */

/* base case: console_init on an object with arbitrary prior content, then the first run of the console protothread */
void h_run_init(void)
{
	VERIF_LOAD_INPUTS();
	learn_labels();
	havoc_console();
	reset_observers();
	console_init(&C, NULL);
	VASSERT(C.fibre.priv == 0 && C.fibre.fn == console_fibre_endpoint && fibre_runs == 1,
		"C15 console_init leaves the console protothread at its beginning and makes the console fibre runnable");
	VASSERT(CON_RING_OK(&C) && ring_r(&C) == ring_w(&C) && C.argc == 0 && C.out == NULL && C.prompt != NULL,
		"C15 console_init: empty ring over the console's own 16 bytes, prompt and output set");
	if (IN.silent & 1)
		console_silent(&C);
	pt_state_t r = console_run(&C);
	LEARNT();
	VASSERT(AT_WAIT_EMPTY(r), "C15 the first run of the console protothread reaches the wait for a character");
	VASSERT(CON_RING_OK(&C) && CON_CURSOR_OK(&C) && C.bufp == C.scratch.buf && CON_LAST_NUL(&C) && con_tail_zero(&C) && tbl_inv(),
		"C15 console invariant established: cursor at the start of the empty 80-byte line buffer, buf[79] == 0, ring indices in range");
	VASSERT(out_prompt == ((IN.silent & 1) ? 0u : 1u), "C15 the prompt is shown at start-up unless the console was made silent");
	VCOVER(IN.silent & 1, "silent");
	VCOVER(!(IN.silent & 1), "prompting");
}

/* step: protothread at the wait point, console invariant, ring holds exactly the next character */
void h_run_wait(void)
{
	VERIF_LOAD_INPUTS();
	learn_labels();
	arbitrary_console(1);
	line_with_cursor();
	C.fibre.priv = lbl_wait;
	C.ringbuf[IN.readi] = (char)IN.ch;
	command_from_inputs();
	reset_observers();
	struct snap s = snap_of();
	memcpy(expect_line, s.scratch, CON_LINE);
	unsigned k = IN.cursor;
	int ch = IN.ch; /* ringbuf_get yields 0..255 */
	bool dispatch = ch == '\n' || k >= CON_LAST;
#ifdef RUN_CASE /* the four kinds of step are separate queries (they run in parallel); together they cover every (state, character) */
	VASSUME(RUN_CASE == (dispatch ? 0 : ch == '\b' ? 1 : ch == 3 ? 2 : 3));
#endif

	pt_state_t r = console_run(&C);

	LEARNT();
	bool sentinel = C.cmd == &cmd_unknown;                  /* its handler is the real console_unknown (h_builtin) */
	pt_state_t code = sentinel ? PT_EXITED : gen_ret;       /* what the command returned */
	VASSERT(fixed_part_same(&s) && ring_bytes_same(&s) && ring_w(&C) == s.writei && CON_RING_OK(&C),
		"C15 console_run writes nothing outside the line buffer, its cursor, the arguments and the ring's read index");
	VASSERT(ring_r(&C) == s.writei, "C15 console_run consumes the character");
	if (dispatch) {
		VASSERT(OBS(tok_calls == 1 && find_calls == 1 && tok_at == 1 && find_at == 2 && (sentinel ? cmd_calls == 0 : cmd_calls == 1 && cmd_at == 3)),
			"C15 newline or a full buffer dispatches: the line is tokenised, the command looked up and run, in this order, exactly once");
		VASSERT(OBS(tok_line_ok), "C15 the line that is tokenised is the line as edited: the buffer is handed over unchanged, the completing character is not part of it");
		VASSERT(OBS(cmd_args_ok && cmd_pt_zero),
			"C15 the command is entered with at most four arguments that are NUL-terminated strings inside the line buffer");
		VASSERT(OBS(sentinel || cmd_seen == C.cmd) && tbl_inv(), "C15 the command that runs is the one the lookup selected");
		if (code >= PT_EXITED)
			check_ready_for_next_line(r, code);
		else
			VASSERT(OBS(r == code && C.fibre.priv == lbl_spawn && out_prompt == 0 && out_failed == 0),
				"C15 a command that yields or waits is resumed later: console_run returns its code and stays at the spawn point");
	} else {
		VASSERT(OBS(tok_calls == 0 && find_calls == 0) && cmd_calls == 0, "C15 no command is dispatched before the line is complete");
		VASSERT(AT_WAIT_EMPTY(r), "C15 console_run consumes the character and waits for the next one");
		VASSERT(args_same(&s) && C.cmd == s.cmd && C.pt == s.pt, "C15 editing touches only the line buffer and its cursor");
		VASSERT(CON_CURSOR_OK(&C) && CON_LAST_NUL(&C), "C15 console invariant re-established: cursor inside the 80-byte line buffer and buf[79] == 0");
		if (ch == '\b') {
			VASSERT(C.bufp == C.scratch.buf + (k > 0 ? k - 1 : 0),
				"C15 backspace moves the cursor back by one and never before the start of the line buffer");
			VASSERT(scratch_same(&s, 0, k > 0 ? k - 1 : 0) && scratch_same(&s, CON_LINE, sizeof(C.scratch)), "C15 backspace leaves the rest of the line alone");
			VASSERT(con_tail_zero(&C),
				"C15 backspace removes the last character from the line that will be dispatched (console invariant: bytes at and after the cursor are zero)");
		} else if (ch == 3) {
			VASSERT(prompt_post(&C) && out_prompt == 1, "C15 Ctrl-C discards the line: buffer cleared, cursor at the start, prompt shown, nothing dispatched");
		} else {
			VASSERT(C.bufp == C.scratch.buf + k + 1 && C.scratch.buf[k] == (char)ch,
				"C15 any other character is stored at the cursor and the cursor advances by one");
			VASSERT(scratch_same(&s, 0, k) && scratch_same(&s, k + 1, sizeof(C.scratch)), "C15 storing a character leaves the rest of the line alone");
			VASSERT(con_tail_zero(&C), "C15 console invariant re-established: the line buffer holds exactly the edited line (bytes at and after the cursor are zero)");
		}
	}
#if !defined(RUN_CASE) || RUN_CASE == 0
	VCOVER(ch == '\n' && k == 0, "empty line");
	VCOVER(ch != '\n' && k == CON_LAST && code == PT_EXITED, "buffer full");
#if RUN_K == 0
	VCOVER(dispatch && code == PT_WAITING, "command blocks");
	VCOVER(dispatch && code == PT_FAILED, "command fails");
#else
	VCOVER(dispatch && sentinel, "unknown command");
#endif
#endif
#if !defined(RUN_CASE) || RUN_CASE == 1
	VCOVER(ch == '\b' && k == 0, "backspace at the start");
	VCOVER(ch == '\b' && k == CON_LAST - 1, "backspace near the end");
#endif
#if !defined(RUN_CASE) || RUN_CASE == 2
	VCOVER(ch == 3 && k > 5, "Ctrl-C");
#endif
#if !defined(RUN_CASE) || RUN_CASE == 3
	VCOVER(ch == 'a' && k == CON_LAST - 1, "last storable position");
	VCOVER(ch == 0 && k == 0, "NUL character");
#endif
}

/* step: a command is blocked (spawn point); it may have scribbled anywhere in the scratch union */
void h_run_spawn(void)
{
	VERIF_LOAD_INPUTS();
	learn_labels();
	arbitrary_console(0);
	VASSUME(IN.cursor <= CON_LAST);
	C.bufp = C.scratch.buf + IN.cursor;
	C.fibre.priv = lbl_spawn;
	C.cmd = &POOL[0]; /* the sentinel's handler never blocks (h_builtin) */
	command_from_inputs();
	reset_observers();
	struct snap s = snap_of();

	pt_state_t r = console_run(&C);

	LEARNT();
	VASSERT(fixed_part_same(&s) && ring_bytes_same(&s) && ring_w(&C) == s.writei && ring_r(&C) == s.readi && CON_RING_OK(&C),
		"C15 console_run writes nothing outside the line buffer, its cursor, the arguments and the ring's read index");
	VASSERT(cmd_calls == 1 && cmd_seen == s.cmd && tok_calls == 0 && find_calls == 0 && C.cmd == s.cmd,
		"C15 a blocked command is resumed, exactly once per invocation, without tokenising or looking up again");
	if (gen_ret >= PT_EXITED)
		check_ready_for_next_line(r, gen_ret);
	else
		VASSERT(r == gen_ret && C.fibre.priv == lbl_spawn && out_prompt == 0 && out_failed == 0,
			"C15 a command that yields or waits is resumed later: console_run returns its code and stays at the spawn point");
	VCOVER(gen_ret == PT_EXITED && (IN.scribble & 1) && IN.scr_idx == CON_LAST && IN.scr_val != 0, "command left garbage in buf[79]");
	VCOVER(gen_ret == PT_YIELDED, "yields again");
}

/*
 * console_process = ringbuf_put + "run the console protothread until it no longer yields".  What one run of the
 * protothread does with the character is the step contract above (h_run_wait / h_run_spawn); here console_run is
 * substituted by a stub that only answers (yielded k times, then something else) and counts.
 */
static unsigned run_calls, run_yields;
static pt_state_t run_final;
static bool run_saw_char;
static uint8_t run_expect;
pt_state_t console_run_contract(console_t *c);
pt_state_t console_run_contract(console_t *c)
{
	if (run_calls++ == 0) /* the character is in the ring before the protothread runs */
		run_saw_char = c == &C && ring_w(c) != ring_r(c) &&
			       (uint8_t)c->ringbuf[(ring_w(c) + sizeof(c->ringbuf) - 1) % sizeof(c->ringbuf)] == run_expect;
	if (run_yields > 0) {
		run_yields--;
		return PT_YIELDED;
	}
	return run_final;
}

void h_process(void)
{
	VERIF_LOAD_INPUTS();
	small_table();
	VASSUME(IN.nring < sizeof(C.ringbuf) - 1);
	arbitrary_console(IN.nring);
	line_with_cursor();
	VASSUME(IN.cmd_ret <= PT_FAILED && IN.cmd_ret != PT_YIELDED && IN.which <= 3);
	run_calls = 0;
	run_yields = IN.which;
	run_final = (pt_state_t)IN.cmd_ret;
	run_expect = IN.ch;
	run_saw_char = false;
	reset_observers();
	struct snap s = snap_of();

	console_process(&C, (char)IN.ch);

#ifndef VERIF_NATIVE
	VASSERT(run_saw_char && run_calls == IN.which + 1u,
		"C15 console_process puts the character into the ring, then runs the console protothread until it no longer yields");
#endif
	VASSERT(ring_w(&C) == (s.writei + 1) % sizeof(C.ringbuf) && (uint8_t)C.ringbuf[s.writei] == IN.ch,
		"C15 console_process delivers the character through the ring");
	VASSERT(fixed_part_same(&s) && CON_RING_OK(&C) && fibre_runs == 0, "C15 console_process does not schedule the fibre and leaves the console's fixed part alone");
#ifndef VERIF_NATIVE
	VASSERT(ring_r(&C) == s.readi && args_same(&s) && scratch_same(&s, 0, sizeof(C.scratch)) && C.bufp == s.bufp && C.cmd == s.cmd && C.pt == s.pt &&
			C.fibre.priv == s.fibre.priv,
		"C15 console_process itself writes only the ring (everything else is done by the console protothread)");
#endif
	VCOVER(IN.which == 3 && IN.cmd_ret == PT_EXITED, "yields three times, then exits");
	VCOVER(IN.which == 0 && IN.cmd_ret == PT_WAITING && s.writei == 15, "waits at once, put wraps");
}

/* do_prompt against its contract */
void h_prompt(void)
{
	VERIF_LOAD_INPUTS();
	small_table();
	arbitrary_console(IN.nring % sizeof(C.ringbuf));
	VASSUME(IN.cursor <= CON_LAST);
	C.bufp = C.scratch.buf + IN.cursor;
	reset_observers();
	struct snap s = snap_of();
	do_prompt(&C);
	VASSERT(prompt_post(&C), "C15 do_prompt clears the line buffer and puts the cursor at its start");
	VASSERT(out_prompt == 1 && out_flush == 1, "C15 do_prompt shows the prompt");
	VASSERT(fixed_part_same(&s) && ring_bytes_same(&s) && ring_w(&C) == s.writei && ring_r(&C) == s.readi && args_same(&s) && C.cmd == s.cmd &&
			C.pt == s.pt && C.fibre.priv == s.fibre.priv,
		"C15 do_prompt writes only the scratch union and the cursor");
	VCOVER(IN.cursor == CON_LAST, "cursor at the end");
}

/* ================================================================================================ tokenizer */

/* every content of the 80-byte line buffer (and of the rest of the union) with buf[79] == 0 */
void h_tokenize(void)
{
	VERIF_LOAD_INPUTS();
	small_table();
	arbitrary_console(0);
	C.bufp = C.scratch.buf;
#if defined(TOK_HEAD) /* quick tier stand-in: the line ends within the first TOK_HEAD bytes (the rest of the buffer is NUL) */
	for (unsigned j = TOK_HEAD; j < CON_LINE; j++)
		C.scratch.buf[j] = 0;
#elif defined(TOK_TAIL) /* quick tier stand-in: a long line whose last TOK_TAIL bytes are arbitrary, after plain characters */
	for (unsigned j = 0; j + TOK_TAIL < CON_LAST; j++)
		C.scratch.buf[j] = 'a';
#endif
	VASSUME(TOK_PRE(&C));
	struct snap s = snap_of();
	do_tokenize(&C);
	VASSERT(C.argc >= 1 && C.argc <= CON_ARGS, "C15 the line is split into the command name and at most three further arguments: 1 <= argc <= 4");
	VASSERT(tok_post_args(&C),
		"C15 every argv[i] points into the 80-byte line buffer at a NUL-terminated string (buf[79] stays NUL); unused arguments are empty strings");
	VASSERT(tok_post_line(&C, (const char *)s.scratch), "C15 the tokenizer only replaces separators and quotes of the line by NUL");
	VASSERT(fixed_part_same(&s) && ring_bytes_same(&s) && ring_w(&C) == s.writei && ring_r(&C) == s.readi && C.cmd == s.cmd && C.pt == s.pt &&
			C.bufp == s.bufp && C.fibre.priv == s.fibre.priv && scratch_same(&s, CON_LINE, sizeof(C.scratch)),
		"C15 the tokenizer writes only the line buffer and the arguments");
#if !defined(TOK_HEAD)
	VCOVER(C.argc == 4 && C.argv[3] == C.scratch.buf + 78, "fourth argument is the last character of a full line");
	VCOVER(C.argc == 1 && s.scratch[70] == ' ' && s.scratch[60] == 'a', "quoted blank near the end");
#endif
#if !defined(TOK_TAIL)
	VCOVER(C.argc == 4 && C.argv[3] == C.scratch.buf + 9 && s.scratch[11] == ' ' && s.scratch[12] == 'b', "more than four tokens");
	VCOVER(C.argc == 1 && s.scratch[4] == ' ' && s.scratch[1] == '"', "quoted blank");
#endif
}

/*
 * Reference tokenizer, written from the statement: the line is split on unquoted white space; an argument that starts
 * with ' or " extends to the matching quote (white space and the other quote character inside it are ordinary
 * characters) and the quotes are not part of it.  Tokens are (start, length) in the line: the real tokenizer works in
 * place, so argv[i] must be &buf[start] and the string there must have that length.
 */
#define REF_MAX 8
struct ref {
	unsigned n, start[REF_MAX], len[REF_MAX];
	bool quoted[REF_MAX];
	/* lines whose meaning the statement does not fix */
	bool unterminated, adjacent, midquote, empty_quoted;
};
static bool ref_ws(char ch) { return ch == ' ' || ch == '\t' || ch == '\n' || ch == '\v' || ch == '\f' || ch == '\r'; }
static bool ref_q(char ch) { return ch == '\'' || ch == '"'; }
static void ref_tokenize(const char *l, unsigned max, struct ref *r)
{
	/* one pass, one character per iteration (a constant-bound loop keeps symbolic execution cheap) */
	bool in_token = false;
	char q = 0; /* the quote that opened the current token, if any */
	unsigned t = 0;
	memset(r, 0, sizeof(*r));
	for (unsigned j = 0; j < max; j++) {
		char ch = l[j];
		if (!ch)
			break;
		if (!in_token) {
			if (ref_ws(ch))
				continue; /* unquoted white space separates */
			if (r->n >= REF_MAX)
				break;
			t = r->n++;
			in_token = true;
			if (ref_q(ch)) { /* a quoted argument: the quotes are not part of it */
				q = ch;
				r->quoted[t] = true;
				r->start[t] = j + 1;
				r->len[t] = 0;
			} else {
				q = 0;
				r->start[t] = j;
				r->len[t] = 1;
			}
		} else if (q) {
			if (ch == q) { /* the matching quote ends it; white space and the other quote inside are ordinary characters */
				in_token = false;
				q = 0;
				if (r->len[t] == 0)
					r->empty_quoted = true;
				if (j + 1 < max && l[j + 1] && !ref_ws(l[j + 1]))
					r->adjacent = true;
			} else {
				r->len[t]++;
			}
		} else {
			if (ref_ws(ch)) {
				in_token = false;
			} else {
				if (ref_q(ch))
					r->midquote = true;
				r->len[t]++;
			}
		}
	}
	if (in_token && q)
		r->unterminated = true;
}
static bool arg_is(const console_t *c, int i, const char *orig, unsigned start, unsigned len)
{
	bool ok = c->argv[i] == c->scratch.buf + start && c->scratch.buf[start + len] == 0;
	for (unsigned j = 0; j < EQ_LEN; j++)
		ok = ok && (j >= len || c->scratch.buf[start + j] == orig[start + j]);
	return ok;
}

void h_tok_equiv(void)
{
	char orig[CON_LINE];
	struct ref R;
	VERIF_LOAD_INPUTS();
	small_table();
	arbitrary_console(0);
	C.bufp = C.scratch.buf;
	for (unsigned j = 0; j < CON_LINE; j++) {
		if (j < EQ_LEN) {
			char ch = (char)IN.line[j];
			VASSUME(ch == 'a' || ch == 'b' || ch == ' ' || ch == '\t' || ch == '\'' || ch == '"' || ch == 0);
			VASSUME(j == 0 || ch == 0 || IN.line[j - 1] != 0); /* a line, then NULs */
		} else
			C.scratch.buf[j] = 0;
		orig[j] = C.scratch.buf[j];
	}
	ref_tokenize(orig, EQ_LEN, &R);
	bool defined = !R.unterminated && !R.adjacent && !R.midquote && !R.empty_quoted; /* well-formed quoting */
	bool leading_ws = ref_ws(orig[0]);
	bool name_quoted = R.n > 0 && R.quoted[0]; /* the statement speaks of quoted arguments, not of a quoted command name */
	bool other_quote_first = false;          /* "'..." or '"...' : a quoted argument that begins with the other quote character */
	for (unsigned t = 0; t < REF_MAX; t++)
		other_quote_first = other_quote_first || (t < R.n && R.quoted[t] && R.len[t] > 0 && ref_q(orig[R.start[t]]));
	/* the fourth argv takes the rest of the line: it is the fourth token exactly when that token is unquoted and ends the line */
	bool fourth_tail = R.n > 4 || (R.n == 4 && (R.quoted[3] || orig[R.start[3] + R.len[3]] != 0));

	do_tokenize(&C);

	unsigned want = R.n == 0 ? 1 : R.n > CON_ARGS ? CON_ARGS : R.n;
	bool same = C.argc == (int)want;
	for (unsigned t = 0; t < CON_ARGS; t++) {
		if (t < R.n && !(t == 3 && fourth_tail))
			same = same && arg_is(&C, (int)t, orig, R.start[t], R.len[t]);
		else if (t == 3 && t < R.n) /* more text after the fourth token: only where it starts is fixed */
			same = same && C.argv[3] == C.scratch.buf + R.start[3];
		else
			same = same && C.argv[t][0] == 0;
	}
	bool core = defined && !leading_ws && !name_quoted && !other_quote_first;
	VASSERT(!core || same,
		"C15 the line is split on unquoted white space with single- or double-quoted arguments exactly as the reference tokenizer does (first token = command name, at most four)");
	VASSERT(!(core && R.n == 0) || C.argv[0][0] == 0, "C15 an empty line has an empty command name");
	VCOVER(core && R.n == 4 && !fourth_tail, "four tokens");
	VCOVER(core && R.n == 2 && R.quoted[1] && R.len[1] == 3 && orig[R.start[1] + 1] == ' ', "quoted argument with a blank inside");
	VCOVER(core && R.n == 2 && R.quoted[1] && orig[R.start[1] + 1] == '"', "other quote inside a quoted argument");
	VCOVER(core && R.n == 4 && fourth_tail, "text after the fourth token");
}

/* ================================================================================================ command table */

/*
 * Tables of every fill.  The names of 31 commands are arbitrary non-empty strings of at most 4 characters, in
 * ascending order (duplicates allowed); for EVERY n in 0..31 the table { first n names, sentinel, NULL... } is built
 * and the operation is run on it.  n is enumerated by a loop rather than chosen symbolically: with a concrete n every
 * pointer in the table is a constant, which keeps the query small (a symbolic n took > 15 minutes, measured).
 */
static void arbitrary_names(void)
{
	for (unsigned i = 0; i < TBL_SLOTS; i++) {
		for (unsigned j = 0; j < NNAME; j++)
			NAMES[i][j] = j + 1 < NNAME ? (char)IN.names[i * NNAME + j] : 0;
		VASSUME(NAMES[i][0] != 0);
	}
	for (unsigned i = 0; i + 2 < TBL_SLOTS; i++)
		VASSUME(ref_name_cmp(NAMES[i], NAMES[i + 1]) <= 0);
}

void h_table_init(void)
{
	/* no havoc: this is about the static initialiser */
	VASSERT(tbl_inv() && tbl_sentinel() == 2 && cmd_table[2] == &cmd_unknown,
		"C15 the initial command table is sorted and sentinel-terminated (echo, help, sentinel)");
	VASSERT(ref_find("echo") == 0 && ref_find("help") == 1 && ref_find("") == 2 && ref_find("ech") == 2,
		"C15 the built-in commands are found by exact name in the initial table");
}

void h_find(void)
{
	VERIF_LOAD_INPUTS();
	arbitrary_names();
	small_table();
	arbitrary_console(0);
	arbitrary_names(); /* small_table() used slot 0 */
	C.bufp = C.scratch.buf;
	VASSUME(CON_LAST_NUL(&C));
	C.argv[0] = C.scratch.buf; /* FIND_PRE: the command name is the start of the line (TOK post) */
	const char *name = C.scratch.buf;
	struct snap s = snap_of();
	for (unsigned n = 0; n < TBL_SLOTS; n++) {
		table_of(n);
		C.cmd = NULL;
		/* exact-name lookup written from the statement, on the names themselves */
		int want = (int)n;
		for (unsigned i = TBL_SLOTS; i-- > 0;)
			if (i < n && ref_name_cmp(name, NAMES[i]) == 0)
				want = (int)i;

		find_command(&C);

		VASSERT(C.cmd == cmd_table[want], "C15 find_command selects the first entry whose name equals argv[0] exactly, else the sentinel");
		VASSERT(want == (int)n ? C.cmd == &cmd_unknown : C.cmd == &POOL[want],
			"C15 a registered command is found by its exact name; an unknown or empty name selects the sentinel: no registered command runs");
		VCOVER(want == 30 && n == 31, "last slot of a full table");
		VCOVER(want == (int)n && name[0] == 0, "empty line");
		VCOVER(want == (int)n && n > 3 && name[0] == NAMES[2][0] && name[1] == NAMES[2][1] && NAMES[2][2] != 0 && name[2] == 0, "proper prefix of a name is not a match");
		VCOVER(want < (int)n && name[3] != 0 && name[4] == 0, "four-character name");
	}
	VASSERT(tbl_inv() && tbl_sentinel() == TBL_SLOTS - 1, "C15 set-up: the table built from the inputs is well formed");
	C.cmd = s.cmd;
	VASSERT(fixed_part_same(&s) && args_same(&s) && scratch_same(&s, 0, sizeof(C.scratch)) && C.bufp == s.bufp && C.pt == s.pt,
		"C15 find_command writes only c->cmd");
}

/*
 * console_register on a table of any fill n (symbolic here: the function indexes the table, which stays cheap) with
 * any sorted names and any new name.  The post-state is stated completely - every one of the 32 slots - from the
 * names alone; that the table stays sorted and sentinel-terminated and that the new command is found afterwards
 * (h_find: first exact match before the sentinel) are consequences of this layout.
 */
void h_register(void)
{
	VERIF_LOAD_INPUTS();
	arbitrary_names();
	for (unsigned j = 0; j < NNAME; j++)
		NEWNAME[j] = j + 1 < NNAME ? (char)IN.newname[j] : 0;
	VASSUME(NEWNAME[0] != 0);
	NEWCMD.name = NEWNAME;
	NEWCMD.fn = cmd_generic;
	unsigned n = IN.ntab;
	VASSUME(n < TBL_SLOTS);
	table_of(n);
	/* where the statement puts it: after every name that does not compare greater */
	unsigned p = n;
	for (unsigned i = TBL_SLOTS; i-- > 0;)
		if (i < n && ref_name_cmp(NAMES[i], NEWNAME) > 0)
			p = i;

	int r = console_register(&NEWCMD);

	if (n == TBL_SLOTS - 1) {
		bool same = true;
		for (unsigned i = 0; i < TBL_SLOTS; i++)
			same = same && cmd_table[i] == (i < n ? &POOL[i] : &cmd_unknown);
		VASSERT(r == -1 && same, "C15 registration fails cleanly, changing nothing, when the table is full");
	} else {
		bool ok = true;
		for (unsigned i = 0; i < TBL_SLOTS; i++) {
			const console_cmd_t *want = i < p ? &POOL[i] : i == p ? &NEWCMD : i <= n ? &POOL[i - 1] : i == n + 1 ? &cmd_unknown : NULL;
			ok = ok && cmd_table[i] == want;
		}
		VASSERT(r == 0, "C15 registration succeeds while the table has a free slot");
		VASSERT(ok, "C15 console_register inserts the command in name order, keeps every earlier registration in order and the sentinel last: the table stays sorted and sentinel-terminated");
	}
	VCOVER(n == TBL_SLOTS - 1, "full table");
	VCOVER(n == TBL_SLOTS - 2 && p == 0, "last free slot, insertion at the front");
	VCOVER(n == 10 && p == 10, "insertion before the sentinel");
	VCOVER(n == 0, "empty table");
	VCOVER(n > 4 && p == 2 && ref_name_cmp(NAMES[1], NEWNAME) == 0, "duplicate name");
}

/* the built-in handlers under the command contract: entered with tokenizer output, they only read the arguments and exit */
void h_builtin(void)
{
	VERIF_LOAD_INPUTS();
	small_table();
	arbitrary_console(IN.nring % sizeof(C.ringbuf));
	C.bufp = C.scratch.buf;
	VASSUME(IN.argc >= 1 && IN.argc <= CON_ARGS && CON_LAST_NUL(&C));
	C.argv[0] = C.scratch.buf;
	reset_observers();
	struct snap s = snap_of();
	pt_state_t r = (IN.which & 1) ? console_echo(&C) : console_unknown(&C);
	VASSERT(r == PT_EXITED, "C15 the built-in handlers echo and unknown exit at once");
	VASSERT(fixed_part_same(&s) && ring_bytes_same(&s) && ring_w(&C) == s.writei && ring_r(&C) == s.readi && args_same(&s) && C.cmd == s.cmd &&
			C.pt == s.pt && C.bufp == s.bufp && C.fibre.priv == s.fibre.priv && scratch_same(&s, 0, sizeof(C.scratch)),
		"C15 the built-in handlers echo and unknown write nothing in the console");
	if (!(IN.which & 1))
		VASSERT(out_unknown == (C.scratch.buf[0] ? 1u : 0u), "C15 an unknown command is reported, an empty line is not");
	VCOVER((IN.which & 1) && IN.argc == 4, "echo with three arguments");
	VCOVER(!(IN.which & 1) && C.scratch.buf[0] == 0, "empty line");
}

/* ================================================================================================ delivery */

void h_putchar(void)
{
	VERIF_LOAD_INPUTS();
	small_table();
	VASSUME(IN.nring < sizeof(C.ringbuf));
	arbitrary_console(IN.nring);
	line_with_cursor();
	reset_observers();
	struct snap s = snap_of();
	console_putchar(&C, (char)IN.ch);
	bool full = IN.nring == sizeof(C.ringbuf) - 1;
	VASSERT(fibre_runs == 1, "C15 console_putchar makes the console fibre runnable");
	VASSERT(fixed_part_same(&s) && ring_r(&C) == s.readi && args_same(&s) && scratch_same(&s, 0, sizeof(C.scratch)) && C.bufp == s.bufp && CON_RING_OK(&C),
		"C15 console_putchar writes only the ring");
	if (!full)
		VASSERT(ring_w(&C) == (s.writei + 1) % sizeof(C.ringbuf) && (uint8_t)C.ringbuf[s.writei] == IN.ch,
			"C15 console_putchar appends the character to the ring");
	else
		VASSERT(ring_w(&C) == s.writei && ring_bytes_same(&s), "C15 console_putchar on a full ring drops the character and changes nothing");
	VCOVER(full, "ring full");
	VCOVER(!full && s.writei == 15, "wrap");
}

/* text of at most `max` characters over the given alphabet, NUL-terminated inside IN.text */
static unsigned bounded_text(unsigned max, const char *alphabet, unsigned na)
{
	unsigned len = IN.len;
	VASSUME(len <= max);
	for (unsigned j = 0; j < TEXT_MAX; j++) {
		if (j < len) {
			bool in = false;
			for (unsigned a = 0; a < na; a++)
				in = in || IN.text[j] == (uint8_t)alphabet[a];
			VASSUME(in);
		} else
			IN.text[j] = 0;
	}
	return len;
}

/*
 * console_eval, first invocation from any console state at the wait point (ring holding nring unread bytes), then - if
 * it yielded - the consumer takes `drain` bytes out of the ring and console_eval is resumed once.  Where console_eval
 * keeps its cursor between the two invocations is its own business; the harness never touches it.
 */
static bool ring_holds(unsigned from, unsigned n, const uint8_t *text)
{
	bool ok = true;
	for (unsigned j = 0; j < sizeof(C.ringbuf); j++)
		ok = ok && (j >= n || (uint8_t)C.ringbuf[(from + j) % sizeof(C.ringbuf)] == text[j]);
	return ok;
}
void h_eval_step(void)
{
	pt_t ept;
	VERIF_LOAD_INPUTS();
	learn_labels();
	learn_eval_label();
	VASSUME(IN.nring < sizeof(C.ringbuf));
	arbitrary_console(IN.nring);
	line_with_cursor();
	C.fibre.priv = lbl_wait;
	for (unsigned j = 0; j < TEXT_MAX; j++)
		VASSUME((j < IN.len) == (IN.text[j] != 0));
	VASSUME(IN.len <= EVS_LEN);
	unsigned len = IN.len;
	reset_observers();
	struct snap s = snap_of();
	unsigned room = sizeof(C.ringbuf) - 1 - IN.nring;
	PT_INIT(&ept);

	pt_state_t r = console_eval(&ept, &C, (const char *)IN.text);

	LEARNT();
	unsigned put = len < room ? len : room;
	VASSERT(fixed_part_same(&s) && ring_r(&C) == s.readi && args_same(&s) && C.bufp == s.bufp && C.cmd == s.cmd && C.pt == s.pt &&
			C.fibre.priv == s.fibre.priv && CON_RING_OK(&C),
		"C15 console_eval writes only the ring and its own cursor");
	VASSERT(scratch_same(&s, 0, CON_LINE), "C15 console_eval leaves the 80-byte line buffer alone (a line being edited is not disturbed by an injection)");
	VASSERT(scratch_same(&s, CON_LINE, sizeof(C.scratch)), "C15 console_eval writes nothing beyond the 80-byte line buffer (its cursor included)");
	VASSERT(ring_w(&C) == (s.writei + put) % sizeof(C.ringbuf), "C15 console_eval puts as much of the text as the ring takes");
	VASSERT(ring_holds(s.writei, put, IN.text), "C15 injected text is delivered exactly as injected, in order");
	VASSERT(r == (put == len ? PT_EXITED : PT_YIELDED) && fibre_runs >= 1,
		"C15 console_eval yields while text remains and exits when all of it is in the ring; the console fibre is made runnable");
	VASSERT(r != PT_YIELDED || ept == lbl_eval, "C15 console_eval yields at its yield point");
	if (r == PT_YIELDED) {
		unsigned drain = IN.evcur % sizeof(C.ringbuf);
		for (unsigned j = 0; j < sizeof(C.ringbuf); j++)
			if (j < drain)
				(void)ringbuf_get(&C.ring); /* an empty ring yields -1, nothing else happens */
		unsigned w1 = ring_w(&C), r1 = ring_r(&C);
		unsigned held = (w1 + sizeof(C.ringbuf) - r1) % sizeof(C.ringbuf);
		unsigned room2 = sizeof(C.ringbuf) - 1 - held;
		unsigned put2 = len - put < room2 ? len - put : room2;
		pt_state_t r2 = console_eval(&ept, &C, (const char *)IN.text);
		VASSERT(ring_w(&C) == (w1 + put2) % sizeof(C.ringbuf) && ring_holds(w1, put2, IN.text + put),
			"C15 a resumed console_eval continues after the last character it has put: nothing is injected twice, nothing is skipped");
		VASSERT(r2 == (put + put2 == len ? PT_EXITED : PT_YIELDED), "C15 a resumed console_eval exits when all of the text is in the ring");
		VASSERT(fixed_part_same(&s) && ring_r(&C) == r1 && args_same(&s) && C.bufp == s.bufp && C.cmd == s.cmd && C.pt == s.pt && scratch_same(&s, 0, CON_LINE),
			"C15 console_eval writes only the ring and its own cursor");
	}
	VCOVER(r == PT_YIELDED && put == 3 && len == EVS_LEN, "half of the text fits");
	VCOVER(r == PT_EXITED && len == EVS_LEN && room == EVS_LEN, "text that just fits");
	VCOVER(r == PT_YIELDED && put == 0, "ring full at the start");
}

/*
 * Sequence level: console_init, then console_eval is resumed until it exits while the harness plays the scheduler
 * (runs the console protothread whenever it has been made runnable).  Every byte that enters the ring is logged when
 * it appears; the log must be the text, once, and the injection must complete within `rounds` resumptions.
 *
 * Under CBMC the console protothread is substituted by its per-character step contract (h_run_wait, h_run_spawn),
 * executed for every unread character, with commands that exit at once and keep no state: an executable rendering of
 * "newline or full buffer: dispatch, then the scratch union is cleared and the cursor returns to the start; backspace:
 * cursor back unless at the start; Ctrl-C: cleared; otherwise stored at the cursor".  (The real console_run calls the
 * command through a function pointer; once ring indices are symbolic CBMC can no longer tell which function that is
 * and explores every address-taken one.)  Natively the real console_run runs.
 */
pt_state_t console_run_steps(console_t *c);
pt_state_t console_run_steps(console_t *c)
{
	if (c->fibre.priv == 0) { /* base case (h_run_init): empty line, cursor at its start, protothread at the wait point */
		memset(&c->scratch, 0, sizeof(c->scratch));
		c->bufp = c->scratch.buf;
		c->fibre.priv = 1;
	}
	for (unsigned n = 0; n < sizeof(c->ringbuf); n++) {
		int ch = ringbuf_get(&c->ring);
		if (ch == -1)
			break;
		bool full = con_line_off(c, c->bufp) >= CON_LAST;
		if (ch == '\n' || full || ch == 3) {
			memset(&c->scratch, 0, sizeof(c->scratch));
			c->bufp = c->scratch.buf;
		} else if (ch == '\b') {
			if (c->bufp != c->scratch.buf)
				c->bufp--;
		} else {
			*c->bufp++ = (char)ch;
		}
	}
	return PT_WAITING;
}

void h_eval_seq(void)
{
	static const char alphabet[] = { 'x', ' ', '\n' };
	uint8_t log[2 * TEXT_MAX];
	unsigned nlog = 0;
	pt_t ept;
	VERIF_LOAD_INPUTS();
	small_table();
	unsigned len = bounded_text(TEXT_LEN, alphabet, sizeof(alphabet));
	gen_ret = PT_EXITED; /* commands exit at once and keep no state in the scratch union */
	gen_scribble = false;
	gen_pt = 0;
	STUB_K(0);
	havoc_console();
	reset_observers();
	console_init(&C, NULL);
	(void)console_run(&C); /* the fibre was made runnable by console_init */
	/* typed input arrives from the interrupt handler and has not been consumed yet when the injection starts: little room in the ring */
	for (unsigned j = 0; j < EVQ_PREFILL; j++)
		console_putchar(&C, 'x');
	memset(log, 0, sizeof(log));
	PT_INIT(&ept);
	pt_state_t r = PT_YIELDED;
	unsigned rounds = 0;
	const unsigned max_rounds = TEXT_LEN / (sizeof(C.ringbuf) - 1 - EVQ_PREFILL) + 2;
	while (rounds < max_rounds && r == PT_YIELDED) {
		unsigned w0 = ring_w(&C);
		r = console_eval(&ept, &C, (const char *)IN.text);
		rounds++;
		for (unsigned j = 0; j < sizeof(C.ringbuf); j++) { /* what this invocation put into the ring */
			unsigned at = (w0 + j) % sizeof(C.ringbuf);
			if (at == ring_w(&C))
				break;
			if (nlog < sizeof(log))
				log[nlog] = (uint8_t)C.ringbuf[at];
			nlog++;
		}
		pt_state_t cr;
		unsigned guard = 0;
		do { /* the console fibre runs until it waits for input */
			cr = console_run(&C);
		} while (cr == PT_YIELDED && ++guard < 4);
	}
	VASSERT(r == PT_EXITED, "C15 input injected with console_eval: the injection completes");
	bool same = nlog == len;
	for (unsigned j = 0; j < TEXT_MAX; j++)
		same = same && (j >= len || log[j] == IN.text[j]);
	VASSERT(same, "C15 input injected with console_eval is executed once: the console receives exactly the injected text");
	VASSERT(ring_r(&C) == ring_w(&C), "C15 the console has consumed the whole injection");
	VCOVER(len == TEXT_LEN && rounds >= 2, "text longer than the room in the ring");
	VCOVER(len == TEXT_LEN && IN.text[TEXT_LEN - 1] == '\n' && rounds >= 2, "injection ends with a newline");
}

VERIF_ENTRIES(E(h_run_init) E(h_run_wait) E(h_run_spawn) E(h_process) E(h_prompt) E(h_tokenize) E(h_tok_equiv) E(h_table_init) E(h_find) E(h_register)
	      E(h_builtin) E(h_putchar) E(h_eval_step) E(h_eval_seq))
