/*
 * C09 - linked list behaves as a sequence under every order of operations.
 * Real code: /repo/librfn/list.c, list_empty/list_peek from /repo/include/librfn/list.h.
 *
 * Pattern P4 (bounded universe of shapes) + P5 (step contract, induction over operations):
 * a pool of NPOOL nodes and two lists A and B.  The abstract value of each list (a duplicate-free
 * sequence of pool indices, the two disjoint) is part of the input record and is realised in memory
 * constructively by build(); nodes outside both lists have next == NULL; the tail pointer of an EMPTY
 * list is an arbitrary, possibly dangling, value from a menu (the stale states the record worries
 * about).  Each harness applies ONE real operation to list A from such an arbitrary state and checks
 * the WHOLE resulting sequence, every return value, the iterator's new position, the frame (list B and
 * every node outside A), and that the result is again a well-formed state - so any operation order of
 * any length is covered by induction.  Scope of the record: a node is never inserted while it is
 * already a member of a list.
 */
#include <string.h>
#include "verif.h"
#include "librfn/list.c"

#ifndef NPOOL
#define NPOOL 5
#endif

#define IN_FIELDS(S, A)                                                                          \
	S(uint8_t, lenA) S(uint8_t, lenB) A(uint8_t, seqA, NPOOL) A(uint8_t, seqB, NPOOL)        \
	S(uint8_t, tailA) S(uint8_t, tailB) A(int32_t, key, NPOOL) S(uint8_t, x) S(uint8_t, k)
VERIF_INPUTS(IN_FIELDS)

static list_node_t POOL[NPOOL];
static list_t LA, LB;
static unsigned nA, nB;
static uint8_t sA[NPOOL + 1], sB[NPOOL + 1];
static list_node_t STALE; /* a node outside the pool for dangling tails */

static bool member(const uint8_t *s, unsigned n, unsigned x)
{
	for (unsigned i = 0; i < n; i++)
		if (s[i] == x)
			return true;
	return false;
}

static list_node_t *tail_menu(unsigned c)
{
	/* any pool node, NULL, or a node outside the pool */
	return c < NPOOL ? &POOL[c] : c == NPOOL ? NULL : &STALE;
}

static void realise(list_t *l, const uint8_t *s, unsigned n, unsigned tailchoice)
{
	l->head = n ? &POOL[s[0]] : NULL;
	for (unsigned i = 0; i + 1 < n; i++)
		POOL[s[i]].next = &POOL[s[i + 1]];
	if (n) {
		POOL[s[n - 1]].next = NULL;
		l->tail = &POOL[s[n - 1]];
	} else {
		l->tail = tail_menu(tailchoice % (NPOOL + 2));
	}
}

static void build(void)
{
	VERIF_LOAD_INPUTS();
	nA = IN.lenA;
	nB = IN.lenB;
	VASSUME(nA + nB <= NPOOL);
	for (unsigned i = 0; i < NPOOL; i++) {
		sA[i] = IN.seqA[i];
		sB[i] = IN.seqB[i];
		POOL[i].next = NULL;
	}
	for (unsigned i = 0; i < nA; i++)
		VASSUME(sA[i] < NPOOL && !member(sA, i, sA[i]));
	for (unsigned i = 0; i < nB; i++)
		VASSUME(sB[i] < NPOOL && !member(sB, i, sB[i]) && !member(sA, nA, sB[i]));
	STALE.next = NULL;
	realise(&LA, sA, nA, IN.tailA);
	realise(&LB, sB, nB, IN.tailB);
}

/* traversing the list yields exactly the sequence; tail is meaningful only when non-empty */
static bool denotes(list_t *l, const uint8_t *s, unsigned n)
{
	list_node_t *p = l->head;
	for (unsigned i = 0; i < n; i++) {
		if (p != &POOL[s[i]])
			return false;
		p = p->next;
	}
	if (p != NULL)
		return false;
	if (n && l->tail != &POOL[s[n - 1]])
		return false;
	return true;
}

static bool outside_clean(const uint8_t *a, unsigned na, const uint8_t *b, unsigned nb)
{
	for (unsigned i = 0; i < NPOOL; i++)
		if (!member(a, na, i) && !member(b, nb, i) && POOL[i].next != NULL)
			return false;
	return true;
}

/* post-state check shared by all operations: expected sequence e[0..ne) for A, B untouched */
static void check_state(const uint8_t *e, unsigned ne, const char *unused)
{
	(void)unused;
	VASSERT(denotes(&LA, e, ne), "C09 traversing the list yields exactly the sequence obtained from the abstract sequence (tail included)");
	VASSERT(denotes(&LB, sB, nB), "C09 an operation on one list leaves every other list untouched");
	VASSERT(outside_clean(e, ne, sB, nB), "C09 a node that is in no list has a cleared link (immediately reusable in any list)");
}

static uint8_t EXP[NPOOL + 1];

static int cmp_key(list_node_t *a, list_node_t *b)
{
	int ka = IN.key[a - POOL], kb = IN.key[b - POOL];
	return (ka > kb) - (ka < kb);
}

void h_insert(void)
{
	build();
	unsigned x = IN.x;
	VASSUME(x < NPOOL && !member(sA, nA, x) && !member(sB, nB, x));
	list_insert(&LA, &POOL[x]);
	memcpy(EXP, sA, nA);
	EXP[nA] = (uint8_t)x;
	check_state(EXP, nA + 1, "");
	VCOVER(nA == 0 && LA.head == &POOL[x], "tail insertion into an empty list with a stale tail");
	VCOVER(nA == NPOOL - 1, "list takes the whole pool");
}

void h_push(void)
{
	build();
	unsigned x = IN.x;
	VASSUME(x < NPOOL && !member(sA, nA, x) && !member(sB, nB, x));
	list_push(&LA, &POOL[x]);
	EXP[0] = (uint8_t)x;
	memcpy(EXP + 1, sA, nA);
	check_state(EXP, nA + 1, "");
	VCOVER(nA == 0, "head insertion into an empty list");
}

void h_insert_sorted(void)
{
	build();
	unsigned x = IN.x;
	VASSUME(x < NPOOL && !member(sA, nA, x) && !member(sB, nB, x));
	for (unsigned i = 0; i + 1 < nA; i++)
		VASSUME(IN.key[sA[i]] <= IN.key[sA[i + 1]]); /* sorted list */
	list_insert_sorted(&LA, &POOL[x], cmp_key);
	/* expected: after every existing element whose key is <= the new key */
	unsigned pos = 0;
	while (pos < nA && IN.key[sA[pos]] <= IN.key[x])
		pos++;
	memcpy(EXP, sA, pos);
	EXP[pos] = (uint8_t)x;
	memcpy(EXP + pos + 1, sA + pos, nA - pos);
	check_state(EXP, nA + 1, "");
	for (unsigned i = 0; i < nA; i++)
		VASSERT(IN.key[EXP[i]] <= IN.key[EXP[i + 1]], "C09 sorted insertion into a sorted list keeps it sorted");
	VCOVER(pos > 0 && pos < nA && IN.key[sA[pos - 1]] == IN.key[x], "inserted in the middle after an equal key");
	VCOVER(pos == 0 && nA > 1, "inserted at the head");
}

void h_extract(void)
{
	build();
	list_node_t *r = list_extract(&LA);
	if (nA == 0) {
		VASSERT(r == NULL, "C09 extract from an empty list returns nothing");
		check_state(sA, 0, "");
	} else {
		VASSERT(r == &POOL[sA[0]], "C09 extract returns the first element of the sequence");
		check_state(sA + 1, nA - 1, "");
	}
	VCOVER(nA == 1, "extract the only element");
}

static void iterator_at(list_iterator_t *it, unsigned k)
{
	it->list = &LA;
	it->prevnext = k == 0 ? &LA.head : &POOL[sA[k - 1]].next;
}
static bool iterator_is_at(list_iterator_t *it, const uint8_t *s, unsigned k)
{
	return it->list == &LA && it->prevnext == (k == 0 ? &LA.head : &POOL[s[k - 1]].next);
}

void h_iterate_next(void)
{
	build();
	list_iterator_t it;
	list_node_t *r = list_iterate(&LA, &it);
	VASSERT(r == (nA ? &POOL[sA[0]] : NULL) && iterator_is_at(&it, sA, 0), "C09 list_iterate starts at the first element");
	VASSERT(list_peek(&LA) == r && list_empty(&LA) == (nA == 0), "C09 list_peek / list_empty agree with the sequence");
	unsigned k = IN.k;
	VASSUME(k <= nA); /* anywhere, including past the end */
	iterator_at(&it, k);
	r = list_iterator_next(&it);
	if (k < nA) {
		VASSERT(r == (k + 1 < nA ? &POOL[sA[k + 1]] : NULL), "C09 list_iterator_next returns the following element or NULL at the end");
		VASSERT(iterator_is_at(&it, sA, k + 1), "C09 list_iterator_next moves the iterator one position on");
	} else {
		VASSERT(r == NULL && iterator_is_at(&it, sA, k), "C09 an iterator past the end stays there and returns NULL");
	}
	check_state(sA, nA, "");
	VCOVER(k == nA && nA > 0, "iterator past the end");
}

void h_iterator_insert(void)
{
	build();
	unsigned x = IN.x, k = IN.k;
	VASSUME(x < NPOOL && !member(sA, nA, x) && !member(sB, nB, x) && k <= nA);
	list_iterator_t it;
	iterator_at(&it, k);
	list_iterator_insert(&it, &POOL[x]);
	memcpy(EXP, sA, k);
	EXP[k] = (uint8_t)x;
	memcpy(EXP + k + 1, sA + k, nA - k);
	check_state(EXP, nA + 1, "");
	VASSERT(iterator_is_at(&it, EXP, k) && *it.prevnext == &POOL[x], "C09 after list_iterator_insert the iterator points to the new node");
	VCOVER(k == nA && nA > 0, "iterator insert at the end (tail must move)");
	VCOVER(k == 0 && nA == 0, "iterator insert into an empty list");
}

void h_iterator_remove(void)
{
	build();
	unsigned k = IN.k;
	VASSUME(k < nA);
	list_iterator_t it;
	iterator_at(&it, k);
	list_node_t *r = list_iterator_remove(&it);
	memcpy(EXP, sA, k);
	memcpy(EXP + k, sA + k + 1, nA - k - 1);
	VASSERT(r == (k + 1 < nA ? &POOL[sA[k + 1]] : NULL), "C09 list_iterator_remove returns the node after the removed one");
	VASSERT(POOL[sA[k]].next == NULL, "C09 a removed node is immediately reusable (its link is cleared)");
	check_state(EXP, nA - 1, "");
	VASSERT(iterator_is_at(&it, EXP, k), "C09 after list_iterator_remove the iterator stays at the same position");
	VCOVER(k == nA - 1 && nA > 1, "remove the last element (tail must move back)");
	VCOVER(nA == 1, "remove the only element");
}

void h_contains(void)
{
	build();
	unsigned x = IN.x;
	VASSUME(x < NPOOL);
	list_iterator_t it;
	bool f = list_contains(&LA, &POOL[x], &it);
	bool g = list_contains(&LA, &POOL[x], NULL);
	unsigned idx = 0;
	while (idx < nA && sA[idx] != x)
		idx++;
	VASSERT(f == (idx < nA) && g == f, "C09 list_contains reports found / not found like the abstract sequence");
	VASSERT(iterator_is_at(&it, sA, idx), "C09 list_contains leaves the iterator at the node found, or past the end");
	check_state(sA, nA, "");
	VCOVER(f && idx == nA - 1, "found at the tail");
	VCOVER(!f && member(sB, nB, x), "node is in the other list");
}

void h_remove(void)
{
	build();
	unsigned x = IN.x;
	VASSUME(x < NPOOL);
	bool f = list_remove(&LA, &POOL[x]);
	unsigned idx = 0;
	while (idx < nA && sA[idx] != x)
		idx++;
	VASSERT(f == (idx < nA), "C09 list_remove reports whether the node was a member");
	if (f) {
		memcpy(EXP, sA, idx);
		memcpy(EXP + idx, sA + idx + 1, nA - idx - 1);
		VASSERT(POOL[x].next == NULL, "C09 a removed node is immediately reusable (its link is cleared)");
		check_state(EXP, nA - 1, "");
	} else {
		check_state(sA, nA, "");
	}
	VCOVER(f && idx == nA - 1 && nA > 1, "remove the tail");
	VCOVER(f && nA == 1, "remove the only element");
	VCOVER(!f && member(sB, nB, x), "node of the other list is not removed");
}

VERIF_ENTRIES(E(h_insert) E(h_push) E(h_insert_sorted) E(h_extract) E(h_iterate_next) E(h_iterator_insert)
	      E(h_iterator_remove) E(h_contains) E(h_remove))
