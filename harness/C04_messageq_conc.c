/*
 * C04 - message queue is safe for many concurrent senders and one receiver.
 * Real code: /repo/librfn/messageq.c (+ messageq_empty from the header) compiled against the shadow
 * <stdatomic.h> (DESIGN P6, P7, P8).
 *
 * Thread-modular proof.  -DROLE_SENDER verifies messageq_claim / messageq_send as ONE sender under the
 * coarsest interference of ANY NUMBER of other senders plus the receiver; -DROLE_RECEIVER verifies
 * messageq_receive / messageq_release / messageq_empty under any number of senders.  Interference
 * (verif_env, before every atomic operation) havocs every shared and ghost integer subject to the
 * invariant and to "what the verified thread owns is untouched".
 *
 * Ghost view (all integers):
 *   g_r0   oldest slot held by the receiver            g_h  number of held (received, unreleased) messages
 *   g_c    number of claimed-or-sent messages          ring = held^h claimed^c free^(Q-h-c) cyclic from g_r0
 *   g_inflight  senders that were granted a buffer and have not yet advanced sendp
 *   g_undo      senders that decremented num_free without being granted and have not yet restored it
 * CQ_INV:
 *   1 <= Q <= 32, h + c <= Q, r0 < Q, sendp == (r0 + h + c) % Q, inflight <= Q - h - c,
 *   (uchar)num_free == (uchar)((Q - h - c) - inflight - undo),   inflight, undo <= MAXT (= 100),
 *   a full flag is set only on a slot of the claimed region.
 * Receiver-private: receivep == (r0 + h) % Q whenever the receiver is not inside messageq_receive.
 * Permission is classified in the ghost state by the TRUE count  F = (Q-h-c) - inflight - undo  at the
 * sender's decrement: F >= 1 grants a buffer, otherwise the sender must undo.
 */
#include <stdlib.h>
#include <string.h>
#include "verif.h"
#include "librfn/messageq.c"

#define MAXT 100

#define IN_FIELDS(S, A)                                                                          \
	S(uint8_t, q) S(uint16_t, msg_len) S(uint16_t, slack) S(uint8_t, r0) S(uint8_t, h) S(uint8_t, c) \
	S(uint8_t, inflight) S(uint8_t, undo) S(uint32_t, flags) S(uint8_t, my_slot) S(uint32_t, watch) S(uint8_t, wbyte) \
	A(uint8_t, e_r0, 8) A(uint8_t, e_h, 8) A(uint8_t, e_c, 8) A(uint8_t, e_inflight, 8) A(uint8_t, e_undo, 8) A(uint32_t, e_flags, 8)
VERIF_INPUTS(IN_FIELDS)

enum { ME_IDLE, ME_GRANTED, ME_MUST_UNDO, ME_OWNER, ME_FAILED, ME_SENT };

static messageq_t MQ;
static char *BASE;
static size_t BASE_LEN;
static unsigned Q;

static unsigned g_r0, g_h, g_c, g_inflight, g_undo;
static int me;
static unsigned my_slot;
static unsigned env_calls;
static bool in_call;
static bool rx_in_receive; /* receiver between its fetch_and and the plain update of receivep */
static bool rx_got;
static unsigned rx_slot;
static bool empty_flag_seen_clear;

static bool in_claimed(unsigned i)
{
	return i < Q && ((i + Q - (g_r0 + g_h) % Q) % Q) < g_c;
}
static bool flags_ok(void)
{
	for (unsigned i = 0; i < 32; i++)
		if (((MQ.full_flags.v >> i) & 1u) && !in_claimed(i))
			return false;
	return true;
}
static bool cq_inv(void)
{
	if (!(Q >= 1 && Q <= 32 && MQ.queue_len == Q && MQ.basep == BASE && MQ.msg_len == IN.msg_len))
		return false;
	if (!(g_h + g_c <= Q && g_r0 < Q && g_inflight <= MAXT && g_undo <= MAXT))
		return false;
	if (!(MQ.sendp.v == (g_r0 + g_h + g_c) % Q && g_inflight <= Q - g_h - g_c))
		return false;
	if ((unsigned char)MQ.num_free.v != (unsigned char)((int)(Q - g_h - g_c) - (int)g_inflight - (int)g_undo))
		return false;
	if (!flags_ok())
		return false;
	/* what the verified thread owns */
	if (me == ME_GRANTED && g_inflight < 1)
		return false;
	if (me == ME_MUST_UNDO && g_undo < 1)
		return false;
	if (me == ME_OWNER && !(in_claimed(my_slot) && !((MQ.full_flags.v >> my_slot) & 1u)))
		return false;
#ifdef ROLE_RECEIVER
	if (!rx_in_receive && MQ.receivep != (g_r0 + g_h) % Q)
		return false;
#endif
	return true;
}

/* ------------------------------------------------------------------ interference */
void verif_env(const void *obj, enum verif_op op, memory_order mo)
{
	VASSERT(cq_inv(), "C04 RG: the invariant holds at every atomic boundary of the verified thread");
	/* C07 premise 1: memory-order table of the message queue, by the role of the access */
	if (obj == &MQ.num_free && op == VOP_FETCH_SUB)
		VASSERT(VERIF_MO_ACQUIRES(mo), "C07 the decrement of num_free in claim (takes a released buffer over from the receiver) is at least acquire");
	if (obj == &MQ.num_free && op == VOP_FETCH_ADD && me != ME_MUST_UNDO)
		VASSERT(VERIF_MO_RELEASES(mo), "C07 the increment of num_free in release (hands the buffer back to the senders) is at least release");
	if (obj == &MQ.full_flags && op == VOP_FETCH_OR)
		VASSERT(VERIF_MO_RELEASES(mo), "C07 the fetch_or that publishes a message in send is at least release");
	if (obj == &MQ.full_flags && (op == VOP_FETCH_AND || op == VOP_LOAD))
		VASSERT(VERIF_MO_ACQUIRES(mo), "C07 the receiver's read of the full flags (takes the message over from its sender) is at least acquire");
	if (obj == &MQ.sendp && op == VOP_CAS)
		VASSERT(VERIF_MO_RELEASES(mo) && VERIF_MO_ACQUIRES(mo), "C07 the compare-exchange that hands out a slot orders the claimers (acquire and release)");
	if (!in_call)
		return;
	unsigned k = env_calls < 8 ? env_calls : 7;
	env_calls++;
#ifdef ROLE_SENDER
	/* any number of other senders and the receiver ran: everything shared may have changed */
	g_r0 = IN.e_r0[k];
	g_h = IN.e_h[k];
#endif
	/* (receiver role: r0, h and receivep are the receiver's own and stay) */
	g_c = IN.e_c[k];
	g_inflight = IN.e_inflight[k];
	g_undo = IN.e_undo[k];
	MQ.full_flags.v = IN.e_flags[k];
	VASSUME(g_r0 < Q && g_h + g_c <= Q);
	MQ.sendp.v = (unsigned char)((g_r0 + g_h + g_c) % Q);
	MQ.num_free.v = (__typeof__(MQ.num_free.v))((int)(Q - g_h - g_c) - (int)g_inflight - (int)g_undo);
	VASSUME(cq_inv());
}

/* ------------------------------------------------------------------ own atomic steps: ghost update + guarantee */
void verif_post(const void *obj, enum verif_op op, memory_order mo, unsigned long long oldv, unsigned long long newv)
{
	(void)mo;
	if (op == VOP_FENCE || op == VOP_SIGNAL_FENCE)
		return;
#ifdef ROLE_SENDER
	if (obj == &MQ.num_free && op == VOP_FETCH_SUB) {
		VASSERT(me == ME_IDLE, "C04 claim decrements the free counter once");
		int truly_free = (int)(Q - g_h - g_c) - (int)g_inflight - (int)g_undo;
		if (truly_free >= 1) {
			me = ME_GRANTED;
			g_inflight++;
		} else {
			me = ME_MUST_UNDO;
			g_undo++;
		}
		VASSUME(g_inflight <= MAXT && g_undo <= MAXT); /* bound on simultaneous claimers */
	} else if (obj == &MQ.num_free && op == VOP_FETCH_ADD) {
		VASSERT(me == ME_MUST_UNDO, "C04 claim gives the free counter back exactly when no buffer was really free at its decrement (counting claims in progress)");
		me = ME_FAILED;
		g_undo--;
	} else if (obj == &MQ.sendp && op == VOP_LOAD) {
		VASSERT(me == ME_GRANTED, "C04 claim proceeds to take a buffer only when one was really free (never hands out more buffers than the queue holds)");
	} else if (obj == &MQ.sendp && op == VOP_CAS_OK) {
		VASSERT(me == ME_GRANTED, "C04 claim proceeds to take a buffer only when one was really free (never hands out more buffers than the queue holds)");
		unsigned slot = (unsigned)oldv;
		VASSERT(slot == (g_r0 + g_h + g_c) % Q && g_h + g_c < Q, "C04 the slot being handed out is free (no buffer is handed out twice)");
		VASSERT((unsigned)newv == (slot + 1 >= Q ? 0 : slot + 1), "C04 claim advances sendp by exactly one slot, cyclically");
		g_c++;
		g_inflight--;
		me = ME_OWNER;
		my_slot = slot;
	} else if (obj == &MQ.sendp && op == VOP_CAS_FAIL) {
		/* loop-cut rule (P7): the retry starts from a state the first iteration already covers */
		VASSERT(me == ME_GRANTED && cq_inv() && (unsigned)newv < Q, "C04 RG: loop-head invariant of the compare-exchange retry loop");
		VASSUME(false);
	} else if (obj == &MQ.full_flags && op == VOP_FETCH_OR) {
		VASSERT(me == ME_OWNER, "C04 send is called by the owner of a claimed message");
		VASSERT((unsigned)newv == ((unsigned)oldv | (1u << my_slot)), "C04 send sets exactly the flag of the sender's own message");
		me = ME_SENT;
	} else {
		VASSERT(false, "C04 a sender performs no other atomic operation on the queue");
	}
#else
	if (obj == &MQ.full_flags && op == VOP_FETCH_AND) {
		unsigned rp = (g_r0 + g_h) % Q;
		VASSERT((unsigned)newv == ((unsigned)oldv & ~(1u << rp)), "C04 receive clears at most the flag of the oldest claimed message");
		if (((unsigned)oldv >> rp) & 1u) {
			/* linearisation point of a successful receive: the message passes to the receiver */
			g_c--;
			g_h++;
			rx_got = true;
			rx_slot = rp;
		}
		rx_in_receive = true;
	} else if (obj == &MQ.num_free && op == VOP_FETCH_ADD) {
		VASSERT(g_h >= 1, "C04 release is called with a received message outstanding");
		g_h--;
		g_r0 = g_r0 + 1 >= Q ? 0 : g_r0 + 1;
	} else if (obj == &MQ.full_flags && op == VOP_LOAD) {
		empty_flag_seen_clear = !(((unsigned)newv >> ((g_r0 + g_h) % Q)) & 1u);
	} else {
		VASSERT(false, "C04 the receiver performs no other atomic operation on the queue");
	}
#endif
	VASSERT(cq_inv(), "C04 RG: every atomic step of the verified thread re-establishes the invariant (guarantee towards all other threads)");
}

/* ------------------------------------------------------------------ arbitrary invariant state */
static void arbitrary_queue(void)
{
	VERIF_LOAD_INPUTS();
	Q = IN.q;
	VASSUME(Q >= 1 && Q <= 32 && IN.msg_len >= 1 && IN.slack < IN.msg_len);
	BASE_LEN = (size_t)Q * IN.msg_len + IN.slack;
	BASE = malloc(BASE_LEN);
	VASSUME(BASE != NULL);
	VASSUME(IN.watch < BASE_LEN);
	VBIND(BASE[IN.watch], (char)IN.wbyte);
	memset(&MQ, 0, sizeof(MQ));
	MQ.basep = BASE;
	MQ.msg_len = IN.msg_len;
	MQ.queue_len = (unsigned char)Q;
	g_r0 = IN.r0; g_h = IN.h; g_c = IN.c; g_inflight = IN.inflight; g_undo = IN.undo;
	VASSUME(g_r0 < Q && g_h + g_c <= Q);
	MQ.receivep = (unsigned char)((g_r0 + g_h) % Q);
	MQ.sendp.v = (unsigned char)((g_r0 + g_h + g_c) % Q);
	MQ.num_free.v = (__typeof__(MQ.num_free.v))((int)(Q - g_h - g_c) - (int)g_inflight - (int)g_undo);
	MQ.full_flags.v = IN.flags;
	env_calls = 0;
	rx_in_receive = rx_got = false;
}

static void payload_untouched(void)
{
	VASSERT(BASE[IN.watch] == (char)IN.wbyte, "C04 no queue operation writes message payload: contents written before the send are what the receiver reads");
}

#ifdef ROLE_SENDER
void h_claim(void)
{
	arbitrary_queue();
	me = ME_IDLE;
	VASSUME(cq_inv());
	in_call = true;
	void *m = messageq_claim(&MQ);
	in_call = false;
	VASSERT(cq_inv(), "C04 RG: the invariant holds when messageq_claim returns");
	VASSERT((m == NULL) == (me == ME_FAILED) && (m != NULL) == (me == ME_OWNER), "C04 claim returns a buffer exactly when it took one, NULL exactly when it gave its permission back");
	if (m != NULL)
		VASSERT((char *)m == BASE + (size_t)my_slot * IN.msg_len, "C04 claim returns the buffer of the slot it was handed");
	payload_untouched();
	VCOVER(m == NULL && g_inflight > 0, "claim fails on a full queue while other claims are in flight");
	VCOVER(m != NULL && Q == 32 && my_slot == 31, "last slot of the deepest queue");
	VCOVER(m != NULL && env_calls >= 3, "claim succeeds with interference at each step");
	VCOVER(m == NULL && g_undo >= 2, "several failing claimers at once");
}

void h_send(void)
{
	arbitrary_queue();
	me = ME_OWNER;
	my_slot = IN.my_slot;
	VASSUME(cq_inv());
	in_call = true;
	messageq_send(&MQ, BASE + (size_t)my_slot * IN.msg_len);
	in_call = false;
	VASSERT(me == ME_SENT, "C04 send publishes the message");
	VASSERT(cq_inv(), "C04 RG: the invariant holds when messageq_send returns");
	payload_untouched();
	VCOVER(my_slot == 31, "flag in the sign bit");
	VCOVER(my_slot != (g_r0 + g_h) % Q, "out-of-order send");
}
#else
void h_receive(void)
{
	arbitrary_queue();
	me = ME_IDLE;
	VASSUME(cq_inv());
	unsigned r0 = g_r0, h0 = g_h;
	in_call = true;
	void *m = messageq_receive(&MQ);
	in_call = false;
	rx_in_receive = false;
	VASSERT((m != NULL) == rx_got, "C04 receive returns a message exactly when the oldest claimed message was marked sent at the instant of its atomic read");
	if (m != NULL) {
		VASSERT((char *)m == BASE + (size_t)rx_slot * IN.msg_len && rx_slot == (r0 + h0) % Q, "C04 messages are received in claim order (the oldest claimed message first)");
		VASSERT(g_h == h0 + 1, "C04 every sent message is received exactly once (it passes to the receiver's held region)");
	} else {
		VASSERT(g_h == h0, "C04 a failed receive takes nothing");
	}
	VASSERT(cq_inv(), "C04 RG: the invariant holds when messageq_receive returns (receivep advanced with the held region)");
	payload_untouched();
	VCOVER(m != NULL && rx_slot == 31, "receive at the last slot of the deepest queue");
	VCOVER(m == NULL && g_c > 0, "oldest claimed message not yet sent");
	VCOVER(m != NULL && env_calls >= 1 && g_c > IN.c, "a sender claimed during the receive");
}

void h_release(void)
{
	arbitrary_queue();
	me = ME_IDLE;
	VASSUME(cq_inv() && g_h >= 1);
	unsigned h0 = g_h;
	in_call = true;
	messageq_release(&MQ, BASE + (size_t)g_r0 * IN.msg_len);
	in_call = false;
	VASSERT(g_h == h0 - 1, "C04 release returns exactly one held buffer to the free pool");
	VASSERT(cq_inv(), "C04 RG: the invariant holds when messageq_release returns");
	payload_untouched();
}

void h_empty(void)
{
	arbitrary_queue();
	me = ME_IDLE;
	VASSUME(cq_inv());
	in_call = true;
	bool e = messageq_empty(&MQ);
	in_call = false;
	VASSERT(e == empty_flag_seen_clear, "C04 messageq_empty reports whether the oldest claimed message was unsent at the instant of its atomic read");
	VASSERT(cq_inv(), "C04 RG: the invariant holds when messageq_empty returns");
}

/* quiescence: when no claim is in progress the free counter is capacity minus messages held or claimed */
void h_quiescent(void)
{
	arbitrary_queue();
	me = ME_IDLE;
	VASSUME(cq_inv() && g_inflight == 0 && g_undo == 0);
	VASSERT((int)MQ.num_free.v == (int)(Q - g_h - g_c), "C04 when all operations have completed the number of free buffers equals the capacity minus the messages still held");
}
#endif

#ifdef ROLE_SENDER
VERIF_ENTRIES(E(h_claim) E(h_send))
#else
VERIF_ENTRIES(E(h_receive) E(h_release) E(h_empty) E(h_quiescent))
#endif
