/*
 * C11 - binary tree iterators and bintree_free (DESIGN 5.C11, patterns P2 + P4).
 * Real code: /repo/librfn/bintree.c (not part of the library build; included directly).
 *
 * Bounded universe of shapes (P4).  A pool of N nodes is numbered in pre-order; the abstract tree
 * is the node count n <= N and, for every node i, the size ls[i] of its left subtree, both taken
 * from the input record.  From these integers the harness computes top-down the subtree size
 * SZ[i] and the children (left child i+1 when ls[i] > 0, right child i+1+ls[i] when
 * SZ[i]-1-ls[i] > 0) and then realises the tree in memory.  The only assumption is the integer
 * side condition ls[i] < SZ[i]; every binary tree shape with at most N nodes arises from exactly
 * one (n, ls[]) and no pointer is ever havocked.
 *
 * Oracles: (a) the recursive bintree_traverse_* of the same file, driven with a logging visitor;
 * (b) an independent recursive reference over the abstract shape (index arrays, no pointers), so
 * that a change to the recursive traversals is not silently absorbed.
 *
 * "Never reads a node after it has been deallocated" is not a VASSERT: in the free harnesses every
 * node is its own malloc() object and the deallocator stub really free()s it, so CBMC's
 * dereference checks (deallocated dynamic object, double free) - natively: AddressSanitizer - are
 * the obligations.
 *
 * Alignment: pool nodes are naturally aligned (the record's assumption is >= 2 bytes; the
 * post-order iterator keeps its "not yet visited" mark in bit 0 of the left pointer).
 *
 * List iterator: a second, separate universe - left-leaning and right-leaning list spines of
 * k <= K list nodes carrying k+1 elements; the elements are non-list nodes that may have
 * children of their own (which may even be flagged as list nodes: neither the traversal nor the
 * iterator may descend below an element).
 */
#include <stdlib.h>
#include <string.h>
#include "verif.h"
#include "librfn/bintree.c"

#ifndef N
#define N 4 /* pool size = largest node count of the shape universe */
#endif
#ifndef K
#define K 3 /* largest number of list nodes in a spine */
#endif

#define NONE 0xff
#define CAP ((N + 2) > (K + 3) ? (N + 2) : (K + 3))

#ifdef VERIF_NATIVE
/* bintree_graphviz() references it; util.c is not linked into the native replay */
void *xmalloc(size_t sz)
{
	void *p = malloc(sz);
	if (!p)
		abort();
	return p;
}
#endif

#define IN_FIELDS(S, A)                                                                          \
	S(uint8_t, n) A(uint8_t, ls, N) S(uint8_t, k) S(uint8_t, dir) A(uint8_t, ext, K + 1)
VERIF_INPUTS(IN_FIELDS)

/* ------------------------------------------------------------------ sequences of node numbers */

struct seq {
	uint8_t len; /* number of entries offered (saturates), the first CAP are kept */
	uint8_t at[CAP];
};

static void seq_add(struct seq *s, uint8_t v)
{
	if (s->len < CAP)
		s->at[s->len] = v;
	if (s->len < 0xf0)
		s->len++;
}

static bool seq_eq(const struct seq *a, const struct seq *b)
{
	if (a->len != b->len)
		return false;
	for (unsigned j = 0; j < CAP; j++)
		if (j < a->len && a->at[j] != b->at[j])
			return false;
	return true;
}

/* ------------------------------------------------------------------------- the shape universe */

static uint8_t n_nodes;
static uint8_t SZ[N + 1];            /* size of the subtree rooted at node i (0: node not in the tree) */
static uint8_t LC[N], RC[N], PAR[N]; /* abstract shape: children and parent by number, NONE if absent */
static bintree_node_t POOL[N];
static bintree_node_t *NODE[N];

static void shape(void)
{
	VERIF_LOAD_INPUTS();
	n_nodes = IN.n;
	VASSUME(n_nodes <= N);
#ifdef FIXN /* partition of the universe: one query per node count */
	VASSUME(n_nodes == FIXN);
#endif
#ifdef FIXL0 /* ... and per size of the root's left subtree */
	VASSUME(n_nodes == 0 || IN.ls[0] == FIXL0);
#endif
	for (unsigned i = 0; i <= N; i++)
		SZ[i] = 0;
	SZ[0] = n_nodes;
	for (unsigned i = 0; i < N; i++) {
		LC[i] = RC[i] = NONE;
		if (i == 0)
			PAR[0] = NONE;
		if (i < n_nodes) {
			uint8_t l = IN.ls[i];
			VASSUME(l < SZ[i]);
			uint8_t r = (uint8_t)(SZ[i] - 1 - l);
			if (l) {
				LC[i] = (uint8_t)(i + 1);
				SZ[i + 1] = l;
				PAR[i + 1] = (uint8_t)i;
			}
			if (r) {
				RC[i] = (uint8_t)(i + 1 + l);
				SZ[i + 1 + l] = r;
				PAR[i + 1 + l] = (uint8_t)i;
			}
		} else {
			PAR[i] = NONE;
		}
	}
}

static bintree_node_t *node_or_null(uint8_t i)
{
	return i == NONE ? NULL : NODE[i];
}

/* heap: every node is an object of its own, so that the deallocator stub can really free it */
static void realise(bool heap)
{
	for (unsigned i = 0; i < N; i++) {
		NODE[i] = heap ? (bintree_node_t *)malloc(sizeof(bintree_node_t)) : &POOL[i];
		VASSUME(NODE[i] != NULL);
	}
	for (unsigned i = 0; i < N; i++) {
		NODE[i]->left = node_or_null(LC[i]);
		NODE[i]->right = node_or_null(RC[i]);
	}
}

static bintree_node_t *root(void)
{
	return n_nodes ? NODE[0] : NULL;
}

/* pointer identity only: never dereferences p (it may have been deallocated, or be a tagged value) */
static uint8_t idx_of(const bintree_node_t *p)
{
	for (unsigned i = 0; i < N; i++)
		if (p == NODE[i])
			return (uint8_t)i;
	return NONE;
}

static bool links_intact(void)
{
	for (unsigned i = 0; i < N; i++)
		if (NODE[i]->left != node_or_null(LC[i]) || NODE[i]->right != node_or_null(RC[i]))
			return false;
	return true;
}

/* every node lo..lo+cnt-1 (a subtree is a contiguous range in pre-order numbering) occurs exactly once and nothing else does */
static bool each_exactly_once(const struct seq *s, unsigned lo, unsigned cnt)
{
	if (s->len != cnt)
		return false;
	for (unsigned i = 0; i < N; i++) {
		unsigned c = 0;
		for (unsigned j = 0; j < N; j++)
			if (j < s->len && s->at[j] == i)
				c++;
		if (c != ((i >= lo && i < lo + cnt) ? 1u : 0u))
			return false;
	}
	return true;
}

/* every node of the subtree lo..lo+cnt-1 other than its root occurs before its parent */
static bool children_before_parents(const struct seq *s, unsigned lo, unsigned cnt)
{
	uint8_t pos[N];
	for (unsigned i = 0; i < N; i++)
		pos[i] = NONE;
	for (unsigned j = 0; j < N; j++)
		if (j < s->len && s->at[j] < N && pos[s->at[j]] == NONE)
			pos[s->at[j]] = (uint8_t)j;
	for (unsigned i = 0; i < N; i++)
		if (i > lo && i < lo + cnt) {
			if (pos[i] == NONE || pos[PAR[i]] == NONE || pos[i] >= pos[PAR[i]])
				return false;
		}
	return true;
}

/* oracle (a): logging visitor for the recursive traversals of bintree.c (they also report the NULL leaves) */
static void log_visitor(void *ctx, bintree_node_t *node, bintree_node_t *parent, int depth)
{
	(void)parent;
	(void)depth;
	if (node)
		seq_add((struct seq *)ctx, idx_of(node));
}

/* oracle (b): independent recursive reference over the abstract shape */
static void ref_in_order(struct seq *s, uint8_t i)
{
	if (i == NONE)
		return;
	ref_in_order(s, LC[i]);
	seq_add(s, i);
	ref_in_order(s, RC[i]);
}

static void ref_pre_order(struct seq *s, uint8_t i)
{
	if (i == NONE)
		return;
	seq_add(s, i);
	ref_pre_order(s, LC[i]);
	ref_pre_order(s, RC[i]);
}

static void ref_post_order(struct seq *s, uint8_t i)
{
	if (i == NONE)
		return;
	ref_post_order(s, LC[i]);
	ref_post_order(s, RC[i]);
	seq_add(s, i);
}

static void shape_covers(void)
{
	bool left_spine = true, right_spine = true, zigzag = true;
	for (unsigned i = 0; i + 1 < N; i++) {
		left_spine = left_spine && LC[i] != NONE;
		right_spine = right_spine && LC[i] == NONE && RC[i] != NONE;
		zigzag = zigzag && ((i & 1) ? (LC[i] == NONE && RC[i] != NONE) : (LC[i] != NONE && RC[i] == NONE));
	}
	VCOVER(n_nodes == 0, "empty tree");
	VCOVER(n_nodes == 1, "single node");
	VCOVER(n_nodes == N && left_spine, "maximally unbalanced: left spine of N nodes");
	VCOVER(n_nodes == N && right_spine, "maximally unbalanced: right spine of N nodes");
	VCOVER(n_nodes == N && zigzag, "zig-zag of N nodes");
	VCOVER(n_nodes >= 3 && LC[0] != NONE && RC[0] != NONE && n_nodes == N, "root with two subtrees, N nodes");
}

/* ------------------------------------------------------------------ in / pre / post-order iterators */

#define ITERATOR_HARNESS(fn, ORDER, iterate, traverse, reference)                                                        \
	void fn(void)                                                                                                    \
	{                                                                                                                \
		struct seq ora = { 0 }, ref = { 0 }, got = { 0 };                                                        \
		bintree_iterator_t it;                                                                                   \
		shape();                                                                                                 \
		realise(false);                                                                                          \
		traverse(root(), log_visitor, &ora);                                                                     \
		reference(&ref, n_nodes ? 0 : NONE);                                                                     \
		/* at most N+1 results are taken: an iterator that never ends is a failed length check, not a hang */   \
		for (bintree_node_t *p = iterate(&it, root()); p && got.len <= N; p = bintree_next(&it))                 \
			seq_add(&got, idx_of(p));                                                                        \
		VASSERT(got.len == n_nodes, "C11 " ORDER " iterator returns as many nodes as the tree has");             \
		VASSERT(each_exactly_once(&got, 0, n_nodes), "C11 " ORDER " iterator returns each node exactly once");   \
		VASSERT(seq_eq(&got, &ora),                                                                              \
			"C11 " ORDER " iterator returns the nodes in the same order as the recursive " ORDER " traversal"); \
		VASSERT(seq_eq(&got, &ref), "C11 " ORDER " iterator returns the nodes in " ORDER " (independent recursive reference)"); \
		VASSERT(links_intact(),                                                                                  \
			"C11 after " ORDER " iteration has run to completion every link of the tree has its original value"); \
		shape_covers();                                                                                          \
	}

ITERATOR_HARNESS(h_iter_in_order, "in-order", bintree_iterate_in_order, bintree_traverse_in_order, ref_in_order)
ITERATOR_HARNESS(h_iter_pre_order, "pre-order", bintree_iterate_pre_order, bintree_traverse_pre_order, ref_pre_order)
ITERATOR_HARNESS(h_iter_post_order, "post-order", bintree_iterate_post_order, bintree_traverse_post_order, ref_post_order)

/* -------------------------------------------------------- bintree_free, bintree_free_left / _right */

static struct seq FLOG;

/* the deallocator really frees: any later read of the node is a dereference failure (CBMC) / use-after-free (ASan) */
static void dealloc_stub(bintree_node_t *p)
{
	seq_add(&FLOG, idx_of(p));
	free(p);
}

static void free_setup(void)
{
	shape();
	realise(true);
	FLOG.len = 0;
}

void h_free(void)
{
	free_setup();
	bintree_free(root(), dealloc_stub);
	VASSERT(each_exactly_once(&FLOG, 0, n_nodes), "C11 bintree_free passes every node of the tree to the deallocator exactly once");
	VASSERT(children_before_parents(&FLOG, 0, n_nodes), "C11 bintree_free deallocates children before parents");
	shape_covers();
}

/* the subtree to free hangs below node 0 (any shape, next to a sibling subtree of any shape) */
void h_free_left(void)
{
	free_setup();
	VASSUME(n_nodes >= 1);
	unsigned lo = 1, cnt = IN.ls[0];
	bintree_free_left(NODE[0], dealloc_stub);
	VASSERT(each_exactly_once(&FLOG, lo, cnt),
		"C11 bintree_free_left passes every node of the left subtree, and no other node, to the deallocator exactly once");
	VASSERT(children_before_parents(&FLOG, lo, cnt), "C11 bintree_free_left deallocates children before parents");
	VASSERT(NODE[0]->left == NULL, "C11 bintree_free_left leaves the parent's left link cleared");
	VCOVER(cnt == 0, "nothing to free");
	VCOVER(cnt == N - 1, "everything below the parent is in the freed subtree");
	VCOVER(cnt >= 1 && RC[0] != NONE, "sibling subtree survives");
	VCOVER(cnt >= 2 && LC[1] != NONE && RC[1] != NONE, "freed subtree has a root with two children");
}

void h_free_right(void)
{
	free_setup();
	VASSUME(n_nodes >= 1);
	unsigned lo = 1u + IN.ls[0], cnt = n_nodes - 1u - IN.ls[0];
	bintree_free_right(NODE[0], dealloc_stub);
	VASSERT(each_exactly_once(&FLOG, lo, cnt),
		"C11 bintree_free_right passes every node of the right subtree, and no other node, to the deallocator exactly once");
	VASSERT(children_before_parents(&FLOG, lo, cnt), "C11 bintree_free_right deallocates children before parents");
	VASSERT(NODE[0]->right == NULL, "C11 bintree_free_right leaves the parent's right link cleared");
	VCOVER(cnt == 0, "nothing to free");
	VCOVER(cnt == N - 1, "everything below the parent is in the freed subtree");
	VCOVER(cnt >= 1 && LC[0] != NONE, "sibling subtree survives");
	VCOVER(cnt >= 3 && LC[lo] != NONE && RC[lo] != NONE, "freed subtree has a root with two children");
}

/* --------------------------------------------------------------------------------- list iterator */

struct lnode {
	bintree_node_t node; /* first member: the usual container-of embedding */
	uint8_t is_list;
	uint8_t id;
};

static struct lnode LN[K + 1];       /* list nodes of the spine (K used) */
static struct lnode EL[K + 1];       /* the elements, in list order */
static struct lnode EX[2 * (K + 1)]; /* optional children of the elements */

static bool is_list_stub(bintree_node_t *p)
{
	return ((struct lnode *)p)->is_list != 0;
}

static void list_visitor(void *ctx, bintree_node_t *p)
{
	seq_add((struct seq *)ctx, ((struct lnode *)p)->id);
}

void h_iter_list(void)
{
	struct seq ora = { 0 }, want = { 0 }, got = { 0 };
	bintree_iterator_t it;
	VERIF_LOAD_INPUTS();
	unsigned k = IN.k;
	bool right_leaning = IN.dir != 0;
	VASSUME(k <= K && IN.dir <= 1);
	for (unsigned i = 0; i <= K; i++) {
		uint8_t e = IN.ext[i];
		EL[i].id = (uint8_t)i;
		EL[i].is_list = 0;
		EL[i].node.left = (e & 1) ? &EX[2 * i].node : NULL;
		EL[i].node.right = (e & 2) ? &EX[2 * i + 1].node : NULL;
		EX[2 * i].id = (uint8_t)(0x40 + 2 * i);
		EX[2 * i + 1].id = (uint8_t)(0x41 + 2 * i);
		EX[2 * i].is_list = (e & 4) != 0;
		EX[2 * i + 1].is_list = (e & 8) != 0;
		EX[2 * i].node.left = EX[2 * i].node.right = NULL;
		EX[2 * i + 1].node.left = EX[2 * i + 1].node.right = NULL;
		LN[i].id = (uint8_t)(0x80 + i);
		LN[i].is_list = 1;
		LN[i].node.left = LN[i].node.right = NULL;
	}
	/* left-leaning:  LN[i] = (LN[i+1], EL[k-i]),  LN[k-1] = (EL[0], EL[1])
	 * right-leaning: LN[i] = (EL[i], LN[i+1]),    LN[k-1] = (EL[k-1], EL[k])      list order EL[0..k] either way */
	for (unsigned i = 0; i < K; i++)
		if (i < k) {
			if (right_leaning) {
				LN[i].node.left = &EL[i].node;
				LN[i].node.right = (i + 1 < k) ? &LN[i + 1].node : &EL[k].node;
			} else {
				LN[i].node.left = (i + 1 < k) ? &LN[i + 1].node : &EL[0].node;
				LN[i].node.right = &EL[k - i].node;
			}
		}
	bintree_node_t *tree = k ? &LN[0].node : &EL[0].node;
	for (unsigned i = 0; i <= k && i <= K; i++)
		seq_add(&want, (uint8_t)i);

	bintree_traverse_list(tree, is_list_stub, list_visitor, &ora);
	for (bintree_node_t *p = bintree_iterate_list(&it, tree, is_list_stub); p && got.len <= K + 1; p = bintree_next(&it))
		seq_add(&got, ((struct lnode *)p)->id);

	VASSERT(seq_eq(&got, &ora), "C11 list iterator yields the same elements as the recursive list traversal");
	VASSERT(seq_eq(&got, &want), "C11 list iterator yields the elements of the spine in list order, each once");
	VCOVER(k == K && !right_leaning, "left-leaning spine of K list nodes");
	VCOVER(k == K && right_leaning, "right-leaning spine of K list nodes");
	VCOVER(k == 0, "a lone element");
	VCOVER(k == 1, "one list node");
	VCOVER(k >= 2 && (IN.ext[0] & 5) == 5 && (IN.ext[k] & 10) == 10, "elements with children flagged as list nodes");
}

VERIF_ENTRIES(E(h_iter_in_order) E(h_iter_pre_order) E(h_iter_post_order) E(h_free) E(h_free_left) E(h_free_right) E(h_iter_list))
