/*
 * C11 - binary tree iterators and bintree_free (DESIGN 5.C11, patterns P2 + P4).
 * Real code: /repo/librfn/bintree.c (not part of the library build; included directly).
 *
 * Bounded universe of shapes (P4).  A pool of N nodes is numbered in pre-order; the abstract tree
 * is the node count n <= N and, for every node i, the size ls[i] of its left subtree, both taken
 * from the input record.  From these integers the harness computes top-down the subtree size
 * SZ[i] and the children (left child i+1 when ls[i] > 0, right child i+1+ls[i] when
 * SZ[i]-1-ls[i] > 0) and then realises the tree in memory.  The only assumption is the integer
 * side condition ls[i] < SZ[i]; every binary tree shape with at most N nodes arises from exactly
 * one (n, ls[]) and no pointer is ever havocked.
 *
 * Oracles: (a) the recursive bintree_traverse_* of the same file, driven with a logging visitor;
 * (b) an independent recursive reference over the abstract shape (index arrays, no pointers), so
 * that a change to the recursive traversals is not silently absorbed.
 *
 * "Never reads a node after it has been deallocated" is not a VASSERT: in the free harnesses every
 * node is its own malloc() object and the deallocator stub really free()s it, so CBMC's
 * dereference checks (deallocated dynamic object, double free) - natively: AddressSanitizer - are
 * the obligations.
 *
 * Alignment: pool nodes are naturally aligned (the record's assumption is >= 2 bytes; the
 * post-order iterator keeps its "not yet visited" mark in bit 0 of the left pointer).
 *
 * List iterator: a second, separate universe - left-leaning and right-leaning list spines of
 * k <= K list nodes carrying k+1 elements; the elements are non-list nodes that may have
 * children of their own (which may even be flagged as list nodes: neither the traversal nor the
 * iterator may descend below an element).
 */
#include <stdlib.h>
#include <string.h>
#include "verif.h"
#include "librfn/bintree.c"

#ifndef N
#define N 4 /* pool size = largest node count of the shape universe */
#endif
#ifndef K
#define K 3 /* largest number of list nodes in a spine */
#endif

#define NONE 0xff
#define CAP ((N + 2) > (K + 3) ? (N + 2) : (K + 3))

#ifdef VERIF_NATIVE
/* bintree_graphviz() references it; util.c is not linked into the native replay */
void *xmalloc(size_t sz)
{
	void *p = malloc(sz);
	if (!p)
		abort();
	return p;
}
#endif

#define IN_FIELDS(S, A)                                                                          \
	S(uint8_t, n) A(uint8_t, ls, N) S(uint8_t, k) S(uint8_t, dir) A(uint8_t, ext, K + 1) A(uint8_t, junk, 2 * N)
VERIF_INPUTS(IN_FIELDS)

/* ------------------------------------------------------------------ sequences of node numbers */

struct seq {
	uint8_t len; /* number of entries offered (saturates), the first CAP are kept */
	uint8_t at[CAP];
};

static void seq_add(struct seq *s, uint8_t v)
{
	if (s->len < CAP)
		s->at[s->len] = v;
	if (s->len < 0xf0)
		s->len++;
}

static bool seq_eq(const struct seq *a, const struct seq *b)
{
	if (a->len != b->len)
		return false;
	for (unsigned j = 0; j < CAP; j++)
		if (j < a->len && a->at[j] != b->at[j])
			return false;
	return true;
}

/* ------------------------------------------------------------------------- the shape universe */

static uint8_t n_nodes;
static uint8_t SZ[N + 1];            /* size of the subtree rooted at node i (0: node not in the tree) */
static uint8_t LC[N], RC[N], PAR[N]; /* abstract shape: children and parent by number, NONE if absent */
static bintree_node_t POOL[N];
static bintree_node_t *NODE[N];

static uint8_t LS[N + 1]; /* size of the left subtree of node i: together with n_nodes this IS the abstract shape */

/* children, parents and subtree sizes from (n_nodes, LS[]) */
static void derive(void)
{
	for (unsigned i = 0; i <= N; i++)
		SZ[i] = 0;
	SZ[0] = n_nodes;
	for (unsigned i = 0; i < N; i++) {
		LC[i] = RC[i] = NONE;
		if (i == 0)
			PAR[0] = NONE;
		if (i < n_nodes) {
			uint8_t l = LS[i];
			VASSUME(l < SZ[i]);
			uint8_t r = (uint8_t)(SZ[i] - 1 - l);
			if (l) {
				LC[i] = (uint8_t)(i + 1);
				SZ[i + 1] = l;
				PAR[i + 1] = (uint8_t)i;
			}
			if (r) {
				RC[i] = (uint8_t)(i + 1 + l);
				SZ[i + 1 + l] = r;
				PAR[i + 1 + l] = (uint8_t)i;
			}
		} else {
			PAR[i] = NONE;
		}
	}
}

/* symbolic shape: node count and left-subtree sizes are inputs */
static void shape(void)
{
	VERIF_LOAD_INPUTS();
#ifdef SHAPE_N /* one concrete shape per query: the constants are assigned (not assumed) so that CBMC's symbolic execution
		* propagates them; SHAPE_N nodes, SHAPE_LS = the left-subtree sizes in pre-order */
	{
		static const uint8_t fixed_ls[N + 1] = { SHAPE_LS };
		IN.n = SHAPE_N;
		for (unsigned i = 0; i < N; i++)
			IN.ls[i] = fixed_ls[i];
	}
#endif
	n_nodes = IN.n;
	VASSUME(n_nodes <= N);
#ifdef FIXN /* partition of the universe: one query per node count */
	VASSUME(n_nodes == FIXN);
#endif
#ifdef FIXL0 /* ... and per size of the root's left subtree */
	VASSUME(n_nodes == 0 || IN.ls[0] == FIXL0);
#endif
	for (unsigned i = 0; i < N; i++)
		LS[i] = IN.ls[i];
	derive();
}

static bintree_node_t *node_or_null(uint8_t i)
{
	return i == NONE ? NULL : NODE[i];
}

/* heap: every node is an object of its own, so that the deallocator stub can really free it */
static void realise(bool heap)
{
	for (unsigned i = 0; i < N; i++) {
		NODE[i] = (heap && i < n_nodes) ? (bintree_node_t *)malloc(sizeof(bintree_node_t)) : &POOL[i];
		VASSUME(NODE[i] != NULL);
	}
	for (unsigned i = 0; i < N; i++) {
		NODE[i]->left = node_or_null(LC[i]);
		NODE[i]->right = node_or_null(RC[i]);
	}
}

static bintree_node_t *root(void)
{
	return n_nodes ? NODE[0] : NULL;
}

/* pointer identity only: never dereferences p (it may have been deallocated, or be a tagged value) */
static uint8_t idx_of(const bintree_node_t *p)
{
	for (unsigned i = 0; i < N; i++)
		if (p == NODE[i])
			return (uint8_t)i;
	return NONE;
}

static bool links_intact(void)
{
	for (unsigned i = 0; i < N; i++)
		if (NODE[i]->left != node_or_null(LC[i]) || NODE[i]->right != node_or_null(RC[i]))
			return false;
	return true;
}

/* every node lo..lo+cnt-1 (a subtree is a contiguous range in pre-order numbering) occurs exactly once and nothing else does */
static bool each_exactly_once(const struct seq *s, unsigned lo, unsigned cnt)
{
	if (s->len != cnt)
		return false;
	for (unsigned i = 0; i < N; i++) {
		unsigned c = 0;
		for (unsigned j = 0; j < N; j++)
			if (j < s->len && s->at[j] == i)
				c++;
		if (c != ((i >= lo && i < lo + cnt) ? 1u : 0u))
			return false;
	}
	return true;
}

/* every node of the subtree lo..lo+cnt-1 other than its root occurs before its parent */
static bool children_before_parents(const struct seq *s, unsigned lo, unsigned cnt)
{
	uint8_t pos[N];
	for (unsigned i = 0; i < N; i++)
		pos[i] = NONE;
	for (unsigned j = 0; j < N; j++)
		if (j < s->len && s->at[j] < N && pos[s->at[j]] == NONE)
			pos[s->at[j]] = (uint8_t)j;
	for (unsigned i = 0; i < N; i++)
		if (i > lo && i < lo + cnt) {
			if (pos[i] == NONE || pos[PAR[i]] == NONE || pos[i] >= pos[PAR[i]])
				return false;
		}
	return true;
}

/* oracle (a): logging visitor for the recursive traversals of bintree.c (they also report the NULL leaves) */
static void log_visitor(void *ctx, bintree_node_t *node, bintree_node_t *parent, int depth)
{
	(void)parent;
	(void)depth;
	if (node)
		seq_add((struct seq *)ctx, idx_of(node));
}

/* oracle (b): independent recursive reference over the abstract shape */
static void ref_in_order(struct seq *s, uint8_t i)
{
	if (i == NONE)
		return;
	ref_in_order(s, LC[i]);
	seq_add(s, i);
	ref_in_order(s, RC[i]);
}

static void ref_pre_order(struct seq *s, uint8_t i)
{
	if (i == NONE)
		return;
	seq_add(s, i);
	ref_pre_order(s, LC[i]);
	ref_pre_order(s, RC[i]);
}

static void ref_post_order(struct seq *s, uint8_t i)
{
	if (i == NONE)
		return;
	ref_post_order(s, LC[i]);
	ref_post_order(s, RC[i]);
	seq_add(s, i);
}

static void shape_covers(void)
{
	bool left_spine = true, right_spine = true, zigzag = true;
	for (unsigned i = 0; i + 1 < N; i++) {
		left_spine = left_spine && LC[i] != NONE;
		right_spine = right_spine && LC[i] == NONE && RC[i] != NONE;
		zigzag = zigzag && ((i & 1) ? (LC[i] == NONE && RC[i] != NONE) : (LC[i] != NONE && RC[i] == NONE));
	}
	VCOVER(n_nodes == 0, "empty tree");
	VCOVER(n_nodes == 1, "single node");
	VCOVER(n_nodes == N && left_spine, "maximally unbalanced: left spine of N nodes");
	VCOVER(n_nodes == N && right_spine, "maximally unbalanced: right spine of N nodes");
	VCOVER(n_nodes == N && zigzag, "zig-zag of N nodes");
	VCOVER(n_nodes >= 3 && LC[0] != NONE && RC[0] != NONE && n_nodes == N, "root with two subtrees, N nodes");
}

/* ------------------------------------------------------------------ in / pre / post-order iterators */

#define ITERATOR_HARNESS(fn, ORDER, iterate, traverse, reference)                                                        \
	static void check_##fn(void)                                                                                     \
	{                                                                                                                \
		struct seq ora = { 0 }, ref = { 0 }, got = { 0 };                                                        \
		bintree_iterator_t it;                                                                                   \
		realise(false);                                                                                          \
		traverse(root(), log_visitor, &ora);                                                                     \
		reference(&ref, n_nodes ? 0 : NONE);                                                                     \
		/* at most N+1 results are taken: an iterator that never ends is a failed length check, not a hang */   \
		for (bintree_node_t *p = iterate(&it, root()); p && got.len <= N; p = bintree_next(&it))                 \
			seq_add(&got, idx_of(p));                                                                        \
		VASSERT(got.len == n_nodes, "C11 " ORDER " iterator returns as many nodes as the tree has");             \
		VASSERT(each_exactly_once(&got, 0, n_nodes), "C11 " ORDER " iterator returns each node exactly once");   \
		VASSERT(seq_eq(&got, &ora),                                                                              \
			"C11 " ORDER " iterator returns the nodes in the same order as the recursive " ORDER " traversal"); \
		VASSERT(seq_eq(&got, &ref), "C11 " ORDER " iterator returns the nodes in " ORDER " (independent recursive reference)"); \
		VASSERT(links_intact(),                                                                                  \
			"C11 after " ORDER " iteration has run to completion every link of the tree has its original value"); \
		shape_covers();                                                                                          \
	}                                                                                                                \
	void fn(void)                                                                                                    \
	{                                                                                                                \
		shape();                                                                                                 \
		check_##fn();                                                                                            \
	}

ITERATOR_HARNESS(h_iter_in_order, "in-order", bintree_iterate_in_order, bintree_traverse_in_order, ref_in_order)
ITERATOR_HARNESS(h_iter_pre_order, "pre-order", bintree_iterate_pre_order, bintree_traverse_pre_order, ref_pre_order)
ITERATOR_HARNESS(h_iter_post_order, "post-order", bintree_iterate_post_order, bintree_traverse_post_order, ref_post_order)

/* -------------------------------------------------------- bintree_free, bintree_free_left / _right */

static struct seq FLOG;

/* the deallocator really frees: any later read of the node is a dereference failure (CBMC) / use-after-free (ASan) */
static void dealloc_stub(bintree_node_t *p)
{
	uint8_t i = idx_of(p);
	seq_add(&FLOG, i);
#ifdef POOLFREE
	/* cheap variant for larger shapes: nodes live in the static pool and "deallocation" overwrites both links with
	 * arbitrary junk from the input record (NULL, any node, either with the tag bit set), so that code which still reads
	 * the node afterwards behaves arbitrarily and breaks an obligation; the exact use-after-free obligation is the
	 * malloc/free variant (default), which is only affordable for small shapes */
	if (i < N) {
		uint8_t a = IN.junk[2 * i], b = IN.junk[2 * i + 1];
		p->left = (bintree_node_t *)((uintptr_t)((a >> 1) < N ? NODE[a >> 1] : NULL) | (a & 1u));
		p->right = (bintree_node_t *)((uintptr_t)((b >> 1) < N ? NODE[b >> 1] : NULL) | (b & 1u));
	}
#else
	free(p);
#endif
}

static void free_setup(void)
{
#ifdef POOLFREE
	realise(false);
#else
	realise(true);
#endif
	FLOG.len = 0;
}

static void check_h_free(void)
{
	free_setup();
	bintree_free(root(), dealloc_stub);
	VASSERT(each_exactly_once(&FLOG, 0, n_nodes), "C11 bintree_free passes every node of the tree to the deallocator exactly once");
	VASSERT(children_before_parents(&FLOG, 0, n_nodes), "C11 bintree_free deallocates children before parents");
	shape_covers();
}

void h_free(void)
{
	shape();
	check_h_free();
}

/* the subtree to free hangs below node 0 (any shape, next to a sibling subtree of any shape) */
static void check_h_free_left(void)
{
	free_setup();
	VASSUME(n_nodes >= 1);
	unsigned lo = 1, cnt = LS[0];
	bintree_free_left(NODE[0], dealloc_stub);
	VASSERT(each_exactly_once(&FLOG, lo, cnt),
		"C11 bintree_free_left passes every node of the left subtree, and no other node, to the deallocator exactly once");
	VASSERT(children_before_parents(&FLOG, lo, cnt), "C11 bintree_free_left deallocates children before parents");
	VASSERT(NODE[0]->left == NULL, "C11 bintree_free_left leaves the parent's left link cleared");
	VCOVER(cnt == 0, "nothing to free");
	VCOVER(cnt == N - 1, "everything below the parent is in the freed subtree");
	VCOVER(cnt >= 1 && RC[0] != NONE, "sibling subtree survives");
	VCOVER(cnt >= 2 && LC[1] != NONE && RC[1] != NONE, "freed subtree has a root with two children");
}

void h_free_left(void)
{
	shape();
	check_h_free_left();
}

static void check_h_free_right(void)
{
	free_setup();
	VASSUME(n_nodes >= 1);
	unsigned lo = 1u + LS[0], cnt = n_nodes - 1u - LS[0];
	bintree_free_right(NODE[0], dealloc_stub);
	VASSERT(each_exactly_once(&FLOG, lo, cnt),
		"C11 bintree_free_right passes every node of the right subtree, and no other node, to the deallocator exactly once");
	VASSERT(children_before_parents(&FLOG, lo, cnt), "C11 bintree_free_right deallocates children before parents");
	VASSERT(NODE[0]->right == NULL, "C11 bintree_free_right leaves the parent's right link cleared");
	VCOVER(cnt == 0, "nothing to free");
	VCOVER(cnt == N - 1, "everything below the parent is in the freed subtree");
	VCOVER(cnt >= 1 && LC[0] != NONE, "sibling subtree survives");
	VCOVER(cnt >= 3 && LC[lo] != NONE && RC[lo] != NONE, "freed subtree has a root with two children");
}

void h_free_right(void)
{
	shape();
	check_h_free_right();
}

/* ------------------------------------------------------------- exhaustive enumeration of the shape universe
 *
 * The symbolic-shape entries above cost minutes per query at N = 4 (measured: 6 m 40 s for the in-order iterator), because
 * every pointer of the tree is a symbolic choice.  The registered checks therefore enumerate the universe instead: a
 * depth-first walk over the left-subtree sizes generates every shape with exactly ENUM_N nodes (optionally: with a root
 * whose left subtree has ENUM_L0 nodes) with *concrete* values, so CBMC's symbolic execution propagates constants and runs
 * the real iterator / bintree_free on each shape; every VASSERT and every CBMC pointer check is evaluated per shape.
 * The number of shapes visited is asserted against the Catalan number, so a walk that skips shapes is not a pass.
 */
#ifndef ENUM_N
#define ENUM_N N
#endif
static unsigned enum_count;
static int enum_which;

static void enum_check(void)
{
	switch (enum_which) {
	case 0: check_h_iter_in_order(); break;
	case 1: check_h_iter_pre_order(); break;
	case 2: check_h_iter_post_order(); break;
	case 3: check_h_free(); break;
	case 4: if (n_nodes >= 1) check_h_free_left(); break;
	default: if (n_nodes >= 1) check_h_free_right(); break;
	}
	enum_count++;
}

static void enum_rec(unsigned i)
{
	if (i >= n_nodes) {
		derive();
		enum_check();
		return;
	}
	for (unsigned l = 0; l < SZ[i]; l++) {
#ifdef ENUM_L0
		if (i == 0 && l != ENUM_L0)
			continue;
#endif
		uint8_t r = (uint8_t)(SZ[i] - 1 - l);
		LS[i] = (uint8_t)l;
		if (l)
			SZ[i + 1] = (uint8_t)l;
		if (r)
			SZ[i + 1 + l] = r;
		enum_rec(i + 1);
	}
}

static void enum_all(int which)
{
	static const unsigned catalan[] = { 1, 1, 2, 5, 14, 42, 132, 429, 1430, 4862 };
	VERIF_LOAD_INPUTS();
	enum_which = which;
	enum_count = 0;
	n_nodes = ENUM_N;
	for (unsigned i = 0; i <= N; i++)
		SZ[i] = 0;
	SZ[0] = n_nodes;
	enum_rec(0);
#ifdef ENUM_L0
	VASSERT(enum_count == catalan[ENUM_L0] * catalan[ENUM_N - 1 - ENUM_L0],
		"C11 the enumeration visited every shape of its partition (Catalan count)");
#else
	VASSERT(enum_count == catalan[ENUM_N], "C11 the enumeration visited every shape with this node count (Catalan number)");
#endif
}

void h_enum_iter_in_order(void) { enum_all(0); }
void h_enum_iter_pre_order(void) { enum_all(1); }
void h_enum_iter_post_order(void) { enum_all(2); }
void h_enum_free(void) { enum_all(3); }
void h_enum_free_left(void) { enum_all(4); }
void h_enum_free_right(void) { enum_all(5); }

/* --------------------------------------------------------------------------------- list iterator */

struct lnode {
	bintree_node_t node; /* first member: the usual container-of embedding */
	uint8_t is_list;
	uint8_t id;
};

static struct lnode LN[K + 1];       /* list nodes of the spine (K used) */
static struct lnode EL[K + 1];       /* the elements, in list order */
static struct lnode EX[2 * (K + 1)]; /* optional children of the elements */

static bool is_list_stub(bintree_node_t *p)
{
	return ((struct lnode *)p)->is_list != 0;
}

static void list_visitor(void *ctx, bintree_node_t *p)
{
	seq_add((struct seq *)ctx, ((struct lnode *)p)->id);
}

void h_iter_list(void)
{
	struct seq ora = { 0 }, want = { 0 }, got = { 0 };
	bintree_iterator_t it;
	VERIF_LOAD_INPUTS();
#ifdef SPINE_K /* concrete spine (assigned, so that symbolic execution propagates it); the elements' children stay symbolic */
	IN.k = SPINE_K;
	IN.dir = SPINE_DIR;
#endif
	unsigned k = IN.k;
	bool right_leaning = IN.dir != 0;
	VASSUME(k <= K && IN.dir <= 1);
	for (unsigned i = 0; i <= K; i++) {
		uint8_t e = IN.ext[i];
		EL[i].id = (uint8_t)i;
		EL[i].is_list = 0;
		EL[i].node.left = (e & 1) ? &EX[2 * i].node : NULL;
		EL[i].node.right = (e & 2) ? &EX[2 * i + 1].node : NULL;
		EX[2 * i].id = (uint8_t)(0x40 + 2 * i);
		EX[2 * i + 1].id = (uint8_t)(0x41 + 2 * i);
		EX[2 * i].is_list = (e & 4) != 0;
		EX[2 * i + 1].is_list = (e & 8) != 0;
		EX[2 * i].node.left = EX[2 * i].node.right = NULL;
		EX[2 * i + 1].node.left = EX[2 * i + 1].node.right = NULL;
		LN[i].id = (uint8_t)(0x80 + i);
		LN[i].is_list = 1;
		LN[i].node.left = LN[i].node.right = NULL;
	}
	/* left-leaning:  LN[i] = (LN[i+1], EL[k-i]),  LN[k-1] = (EL[0], EL[1])
	 * right-leaning: LN[i] = (EL[i], LN[i+1]),    LN[k-1] = (EL[k-1], EL[k])      list order EL[0..k] either way */
	for (unsigned i = 0; i < K; i++)
		if (i < k) {
			if (right_leaning) {
				LN[i].node.left = &EL[i].node;
				LN[i].node.right = (i + 1 < k) ? &LN[i + 1].node : &EL[k].node;
			} else {
				LN[i].node.left = (i + 1 < k) ? &LN[i + 1].node : &EL[0].node;
				LN[i].node.right = &EL[k - i].node;
			}
		}
	bintree_node_t *tree = k ? &LN[0].node : &EL[0].node;
	for (unsigned i = 0; i <= k && i <= K; i++)
		seq_add(&want, (uint8_t)i);

	bintree_traverse_list(tree, is_list_stub, list_visitor, &ora);
	for (bintree_node_t *p = bintree_iterate_list(&it, tree, is_list_stub); p && got.len <= K + 1; p = bintree_next(&it))
		seq_add(&got, ((struct lnode *)p)->id);

	VASSERT(seq_eq(&got, &ora), "C11 list iterator yields the same elements as the recursive list traversal");
	VASSERT(seq_eq(&got, &want), "C11 list iterator yields the elements of the spine in list order, each once");
#ifndef SPINE_K
	VCOVER(k == K && !right_leaning, "left-leaning spine of K list nodes");
	VCOVER(k == K && right_leaning, "right-leaning spine of K list nodes");
	VCOVER(k == 0, "a lone element");
	VCOVER(k == 1, "one list node");
#endif
	VCOVER(k < 2 || ((IN.ext[0] & 5) == 5 && (IN.ext[k] & 10) == 10), "elements with children flagged as list nodes");
}

VERIF_ENTRIES(E(h_iter_in_order) E(h_iter_pre_order) E(h_iter_post_order) E(h_free) E(h_free_left) E(h_free_right) E(h_iter_list)
	      E(h_enum_iter_in_order) E(h_enum_iter_pre_order) E(h_enum_iter_post_order) E(h_enum_free) E(h_enum_free_left) E(h_enum_free_right))
