/*
 * C07 - the fallback atomics of include/librfn/atomic.h (used where the compiler has no <stdatomic.h>) map every
 * non-explicit atomic_* operation to a __atomic builtin with __ATOMIC_SEQ_CST and pass the order of the explicit forms
 * through unchanged.  The real header is compiled in its fallback mode (-D__STDC_NO_ATOMICS__) with the __atomic builtins
 * replaced by recording macros; the checks are decided by constant propagation (a complete, loop-free query).
 */
#include <stdbool.h>
#include "verif.h"

static int g_order = -1, g_order2 = -1;
static unsigned g_cell;
#define __atomic_store_n(o, d, order) (g_order = (order), (void)(*(o) = (d)))
#define __atomic_load_n(o, order) (g_order = (order), *(o))
#define __atomic_exchange_n(o, d, order) (g_order = (order), *(o) = (d))
#define __atomic_compare_exchange_n(o, e, d, weak, ok, fail) (g_order = (ok), g_order2 = (fail), (*(o) == *(e)) ? (*(o) = (d), true) : (*(e) = *(o), false))
#define __atomic_fetch_add(o, v, order) (g_order = (order), *(o) += (v))
#define __atomic_fetch_sub(o, v, order) (g_order = (order), *(o) -= (v))
#define __atomic_fetch_or(o, v, order) (g_order = (order), *(o) |= (v))
#define __atomic_fetch_xor(o, v, order) (g_order = (order), *(o) ^= (v))
#define __atomic_fetch_and(o, v, order) (g_order = (order), *(o) &= (v))
#define __atomic_thread_fence(order) (g_order = (order))
#define __atomic_signal_fence(order) (g_order = (order))
#define __STDC_NO_ATOMICS__ 1
#include "librfn/atomic.h"

#define IN_FIELDS(S, A) S(uint32_t, v)
VERIF_INPUTS(IN_FIELDS)

#define SEQ(op, what)                                                                                                  \
	do {                                                                                                           \
		g_order = -1;                                                                                          \
		op;                                                                                                    \
		VASSERT(g_order == __ATOMIC_SEQ_CST, "C07 fallback " what " is a sequentially consistent __atomic operation"); \
	} while (0)

void h_fallback(void)
{
	VERIF_LOAD_INPUTS();
	atomic_uint *p = &g_cell;
	unsigned e = IN.v;
	SEQ(atomic_store(p, IN.v), "atomic_store");
	SEQ((void)atomic_load(p), "atomic_load");
	SEQ((void)atomic_exchange(p, 1u), "atomic_exchange");
	SEQ((void)atomic_fetch_add(p, 1u), "atomic_fetch_add");
	SEQ((void)atomic_fetch_sub(p, 1u), "atomic_fetch_sub");
	SEQ((void)atomic_fetch_or(p, 1u), "atomic_fetch_or");
	SEQ((void)atomic_fetch_and(p, 1u), "atomic_fetch_and");
	SEQ((void)atomic_fetch_xor(p, 1u), "atomic_fetch_xor");
	g_order = g_order2 = -1;
	(void)atomic_compare_exchange_weak(p, &e, 2u);
	VASSERT(g_order == __ATOMIC_SEQ_CST && g_order2 == __ATOMIC_SEQ_CST, "C07 fallback atomic_compare_exchange_weak is sequentially consistent on success and on failure");
	g_order = g_order2 = -1;
	(void)atomic_compare_exchange_strong(p, &e, 2u);
	VASSERT(g_order == __ATOMIC_SEQ_CST && g_order2 == __ATOMIC_SEQ_CST, "C07 fallback atomic_compare_exchange_strong is sequentially consistent on success and on failure");
	g_order = -1;
	atomic_store_explicit(p, 1u, memory_order_release);
	VASSERT(g_order == __ATOMIC_RELEASE, "C07 fallback explicit forms pass the caller's order through");
	(void)atomic_load_explicit(p, memory_order_acquire);
	VASSERT(g_order == __ATOMIC_ACQUIRE, "C07 fallback explicit forms pass the caller's order through");
	VASSERT(memory_order_seq_cst == __ATOMIC_SEQ_CST && memory_order_relaxed == __ATOMIC_RELAXED, "C07 fallback memory_order names are the compiler's");
	VCOVER(g_cell != 0, "reached the end");
}
VERIF_ENTRIES(E(h_fallback))
