/*
 * C14 - decoding untrusted WAV bytes is memory-safe and reports length faithfully.
 * Real code: /repo/librfn/wavheader.c on top of /repo/librfn/pack.c.
 *
 * The input is a byte string of symbolic length sz < 2^31 in an exactly-sized object (so a
 * one-byte over-read is a CBMC dereference failure), with fully symbolic content: the first
 * 96 bytes come from the input record (every header the walk can read without the skipped
 * extension lies inside them), the rest is unconstrained heap content.
 */
#include <stdlib.h>
#include <string.h>
#include <errno.h>
#include "pack_contract.h"
#include "wav_contract.h"

#ifndef VERIF_NATIVE
/* external formatter (librfn/string.c, built on vsnprintf/malloc): not verified, stubbed */
char *strdup_printf(const char *fmt, ...);
char *strdup_printf(const char *fmt, ...)
{
	(void)fmt;
	return NULL;
}
#else
#include "librfn/string.c"
/* native shims for what string.c needs from util.c (which would drag in the time base) */
void rf_internal_out_of_memory(void) { abort(); }
void *xmalloc(size_t sz) { void *p = malloc(sz); if (!p) abort(); return p; }
#endif
#include "librfn/pack.c"
#include "librfn/wavheader.c"

#define NBYTES 96
#define IN_FIELDS(S, A) S(uint32_t, sz) S(uint32_t, sz2) A(uint8_t, bytes, NBYTES) A(uint8_t, raw, sizeof(rf_wavheader_t))
VERIF_INPUTS(IN_FIELDS)

static uint8_t *make_buffer(uint32_t sz)
{
	uint8_t *b = malloc(sz);
	VASSUME(b != NULL);
	for (unsigned i = 0; i < NBYTES; i++)
		if (i < sz)
			VBIND(b[i], IN.bytes[i]);
	return b;
}

void h_decode(void)
{
	VERIF_LOAD_INPUTS();
	VASSUME(IN.sz < 0x80000000u);
	uint8_t *buf = make_buffer(IN.sz);
	rf_wavheader_t wh;
	int r = rf_wavheader_decode(buf, IN.sz, &wh);
	VASSERT(r < 0 || (long long)r > (long long)IN.sz || r >= RF_WAVHEADER_MIN_SIZE,
		"C14 decode returns an error, a length beyond the input, or at least RF_WAVHEADER_MIN_SIZE");
	if (r >= 0)
		VASSERT((long long)r == WAV_WALK_LEN(&wh), "C14 a non-negative result is exactly the number of bytes the header occupies");
	if (r >= 0)
		VASSERT(WAV_WALK_LEN(&wh) <= 0x7fffffffll, "C14 a header too long for the return value is an error, not a wrapped length");
	VCOVER(r >= 0 && (long long)r <= (long long)IN.sz && wh.cb_size == 22, "accepted extensible header");
	VCOVER(r >= 0 && (long long)r <= (long long)IN.sz && WAV_HAS_FACT(&wh), "accepted header with fact chunk");
	VCOVER(r >= 0 && (long long)r <= (long long)IN.sz && wh.fmt_chunk_size > 200, "accepted header with a long skipped extension");
	VCOVER((long long)r > (long long)IN.sz, "incomplete header");
	VCOVER(r < 0, "rejected");
}

/* truncating an accepted header at any point never yields success */
void h_truncate(void)
{
	VERIF_LOAD_INPUTS();
	VASSUME(IN.sz < 0x80000000u);
	uint8_t *buf = make_buffer(IN.sz);
	rf_wavheader_t wh, wh2;
	int r = rf_wavheader_decode(buf, IN.sz, &wh);
	VASSUME(r >= 0 && (long long)r <= (long long)IN.sz); /* accepted */
	VASSUME(IN.sz2 < (uint32_t)r);
	uint8_t *cut = malloc(IN.sz2); /* exactly-sized copy of the first sz2 bytes */
	VASSUME(cut != NULL);
	memcpy(cut, buf, IN.sz2);
	int r2 = rf_wavheader_decode(cut, IN.sz2, &wh2);
	VASSERT(r2 < 0 || (long long)r2 > (long long)IN.sz2, "C14 truncating an accepted header never yields success");
	VCOVER(IN.sz2 == (uint32_t)r - 1, "cut one byte short");
	VCOVER(IN.sz2 == 0, "cut to nothing");
}

/* whatever structure results, the helpers terminate without faulting: arbitrary structure contents */
void h_helpers(void)
{
	VERIF_LOAD_INPUTS();
	rf_wavheader_t wh;
	memcpy(&wh, IN.raw, sizeof(wh));
	int v = rf_wavheader_validate(&wh);
	rf_wavheader_format_t f = rf_wavheader_get_format(&wh);
	char *s = rf_wavheader_tostring(&wh);
	VASSERT(v == 0 || v == -EINVAL, "C14 rf_wavheader_validate returns 0 or -EINVAL for any structure");
	VASSERT(f >= RF_WAVHEADER_UNKNOWN && f <= RF_WAVHEADER_FLOAT, "C14 rf_wavheader_get_format returns a member of the enumeration for any structure");
#ifdef VERIF_NATIVE
	free(s);
#endif
	(void)s;
	VCOVER(wh.block_align == 0, "zero block alignment");
}

void h_get_format(void)
{
	VERIF_LOAD_INPUTS();
	rf_wavheader_t wh;
	memcpy(&wh, IN.raw, sizeof(wh));
	rf_wavheader_format_t f = rf_wavheader_get_format(&wh);
	VASSERT(f >= RF_WAVHEADER_UNKNOWN && f <= RF_WAVHEADER_FLOAT, "C14 rf_wavheader_get_format returns a member of the enumeration for any structure");
}

VERIF_ENTRIES(E(h_get_format) E(h_decode) E(h_truncate) E(h_helpers))
