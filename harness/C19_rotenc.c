/*
 * C19 - rotary encoder: step contract with ghost latched position (DESIGN P1/P5).
 * Real code: /repo/librfn/rotenc.c, rotenc_count() from /repo/include/librfn/rotenc.h.
 *
 * Invariant Inv(r, g_latched):  last_state <= 3
 *                            && rotenc_count(r) == (g_latched >> 2) & 0xff
 *                            && rotenc_count14(r) == (g_latched >> 2) & 0x3fff
 *                            && (last_state == 0 => g_latched == internal_count)
 * Every step starts from an arbitrary state satisfying Inv; sequence length is unbounded by
 * induction.  The initial state ROTENC_VAR_INIT with g_latched == 0 satisfies Inv (h_init).
 */
#include <string.h>
#include "rotenc_contract.h"
#include "librfn/rotenc.c"

uint16_t g_latched;

#define IN_FIELDS(S, A) A(uint8_t, raw, sizeof(rotenc_t)) S(uint16_t, latched) S(uint8_t, state) S(uint8_t, state2)
VERIF_INPUTS(IN_FIELDS)

static rotenc_t R;

static bool inv(void)
{
	return R.last_state <= 3 && rotenc_count(&R) == ((g_latched >> 2) & 0xff) &&
	       rotenc_count14(&R) == ((g_latched >> 2) & 0x3fff) &&
	       (R.last_state != 0 || g_latched == R.internal_count);
}

static void arbitrary_state(void)
{
	VERIF_LOAD_INPUTS();
	memcpy(&R, IN.raw, sizeof(R));
	g_latched = IN.latched;
}

/* one decode step from any invariant state */
void h_decode(void)
{
	arbitrary_state();
	VASSUME(IN.state <= 3);
	VASSUME(inv());
	uint16_t pos0 = R.internal_count;
	uint8_t from = R.last_state, c0 = rotenc_count(&R);
	uint16_t c14 = rotenc_count14(&R);

	rotenc_decode(&R, IN.state);
	if (IN.state == 0)
		g_latched = R.internal_count; /* ghost update: resting at the detent */

	VASSERT(R.internal_count == (uint16_t)(pos0 + ROT_DELTA(from, IN.state)),
		"C19 position changes by +1 clockwise, -1 anticlockwise, 0 otherwise");
	VASSERT(R.last_state == IN.state, "C19 decoder remembers the new state");
	VASSERT(rotenc_count(&R) == ((g_latched >> 2) & 0xff), "C19 rotenc_count is the latched position in whole clicks modulo 256");
	VASSERT(rotenc_count14(&R) == ((g_latched >> 2) & 0x3fff), "C19 rotenc_count14 is the same latched position modulo 2^14");
	VASSERT((rotenc_count14(&R) & 0xff) == rotenc_count(&R), "C19 the two readings agree in their low 8 bits");
	VASSERT(IN.state == 0 || (rotenc_count(&R) == c0 && rotenc_count14(&R) == c14), "C19 readings change only at the detent");
	VASSERT(inv(), "C19 invariant re-established after a decode step");
	VCOVER(IN.state == 0 && from == 2 && pos0 == 0xffff, "clockwise wrap of the 16-bit position into the detent");
	VCOVER(ROT_DELTA(from, IN.state) == -1 && pos0 == 0x0400, "anticlockwise step off position 256 clicks");
	VCOVER(ROT_DELTA(from, IN.state) == 0 && from != IN.state, "invalid two-bit jump");
}

/* bounce cancels exactly: a step and its reverse leave the position unchanged */
void h_bounce(void)
{
	arbitrary_state();
	VASSUME(IN.state <= 3 && R.last_state <= 3);
	uint16_t pos0 = R.internal_count;
	uint8_t from = R.last_state;
	rotenc_decode(&R, IN.state);
	rotenc_decode(&R, from);
	VASSERT(R.internal_count == pos0 && R.last_state == from, "C19 contact bounce between two states cancels exactly");
}

/* true position vs. readings, for single-bit transition sequences: between detents the live
 * position is within 3 quarter steps of the latched one, i.e. never more than one click away */
void h_within_one_click(void)
{
	arbitrary_state();
	VASSUME(inv());
	int16_t d = (int16_t)(R.internal_count - g_latched);
	/* legal (single-bit) motion: the Gray-code phase of the position matches the state */
	VASSUME(d >= -3 && d <= 3);
	uint16_t live_clicks = (R.internal_count >> 2) & 0x3fff;
	uint16_t diff = (uint16_t)((live_clicks - rotenc_count14(&R)) & 0x3fff);
	VASSERT(diff == 0 || diff == 1 || diff == 0x3fff, "C19 reading never differs from the true position by more than one click (single-bit motion)");
}

void h_init(void)
{
	rotenc_t r0 = ROTENC_VAR_INIT;
	R = r0;
	g_latched = 0;
	VASSERT(inv(), "C19 ROTENC_VAR_INIT satisfies the invariant with latched position 0");
}

VERIF_ENTRIES(E(h_decode) E(h_bounce) E(h_within_one_click) E(h_init))
