/*
 * F6 (C15) - console_eval() keeps its cursor at &c->scratch.u16[sizeof(c->scratch.u16) - 1]: sizeof is the BYTE size (80), so
 * this is element 79 of a 40-element array, 158 bytes into the scratch union.
 *   - ILP32 (the library's embedded targets): the union is 80 bytes, sizeof(console_t) is 168, and the 2-byte cursor at
 *     offset 56+158 lies 46 bytes BEYOND the console object: every console_eval() writes outside it (CBMC --i386-linux:
 *     obligation "console_eval ... array `u16' upper bound" / pointer outside object bounds).  Not reproducible natively here
 *     (no 32-bit libc headers); part (1) below shows the offset arithmetic instead.
 *   - LP64 (this machine): the union is 160 bytes (void *p[20]), so the cursor lands inside the union but beyond the 80-byte
 *     line buffer, i.e. inside what do_prompt()'s memset(c->scratch.buf, 0, sizeof(c->scratch)) clears after every dispatched
 *     line.  Part (2): a fibre injects TWO lines; after the first line is dispatched the cursor is wiped, console_eval()
 *     starts again from the beginning of the text and the injection never completes - "input injected with console_eval is
 *     executed once and the injection completes" fails.
 *
 *   R=/repo; gcc -std=gnu11 -Wall -I$R/include findings/F6_console_eval_cursor.c $R/librfn/console.c $R/librfn/ringbuf.c \
 *       $R/librfn/fibre.c $R/librfn/list.c $R/librfn/messageq.c $R/librfn/util.c $R/librfn/posix/time_posix.c -o /tmp/f6 && /tmp/f6
 *
 * Exit status 0: cursor inside the console's scratch line buffer-or-own field AND the two-line injection completed with each
 * line executed exactly once.  Exit status 1 otherwise (the unrepaired code).
 */
#include <stddef.h>
#include <stdio.h>
#include <stdlib.h>
#include <string.h>

#include <librfn/console.h>
#include <librfn/fibre.h>

void console_hwinit(console_t *c) { (void)c; }

static console_t con;
static int runs_one, runs_two;

static pt_state_t cmd_one(console_t *c) { (void)c; runs_one++; return PT_EXITED; }
static pt_state_t cmd_two(console_t *c) { (void)c; runs_two++; return PT_EXITED; }
static const console_cmd_t c1 = CONSOLE_CMD_VAR_INIT("one", cmd_one);
static const console_cmd_t c2 = CONSOLE_CMD_VAR_INIT("two", cmd_two);

static const char text[] = "one\ntwo with arguments that do not fit the ring\n"; /* longer than the 16-byte ring: console_eval has to yield after line one was dispatched */
static pt_t eval_pt;
static int injected;

static int injector(fibre_t *f)
{
	PT_BEGIN_FIBRE(f);
	PT_SPAWN(&eval_pt, console_eval(&eval_pt, &con, text));
	injected = 1;
	PT_END();
}
static fibre_t injector_fibre = FIBRE_VAR_INIT(injector);

int main(void)
{
	int bad = 0;
	/* (1) where the cursor is, in the arithmetic of the original expression */
	size_t off = offsetof(console_t, scratch) + (sizeof(con.scratch.u16) - 1) * sizeof(uint16_t);
	printf("the unrepaired cursor expression is scratch.u16[%zu] of %zu elements, byte offset %zu of a %zu-byte console_t (line buffer ends at %zu)\n",
	       sizeof(con.scratch.u16) - 1, sizeof(con.scratch.u16) / sizeof(uint16_t), off, sizeof(console_t),
	       offsetof(console_t, scratch) + sizeof(con.scratch.buf));

	/* (2) a two-line injection under the ordinary scheduler */
	FILE *null = fopen("/dev/null", "w");
	console_init(&con, null);
	console_register(&c1);
	console_register(&c2);
	fibre_run(&injector_fibre);
	for (uint32_t t = 0; t < 2000 && !(injected && ringbuf_empty(&con.ring) && t > 100); t++)
		(void)fibre_scheduler_next(t);
	printf("injection %s; 'one' ran %d time(s), 'two' ran %d time(s)\n", injected ? "completed" : "NEVER completed", runs_one, runs_two);
	if (!injected || runs_one != 1 || runs_two != 1)
		bad = 1;
	printf(bad ? "F6: property violated\n" : "F6: ok\n");
	return bad;
}
