/*
 * F8 (C15) - backspace moved the console's cursor back without removing the character: the byte stayed in the line buffer and
 * do_tokenize() takes strlen() of the buffer, so the "deleted" character was still part of the dispatched line.
 * Stream "ab\b\n" with commands "a" and "ab" registered: the line as edited is "a", the unrepaired code dispatches "ab".
 *
 *   R=/repo; gcc -std=gnu11 -Wall -I$R/include findings/F8_console_backspace.c $R/librfn/console.c $R/librfn/ringbuf.c \
 *       $R/librfn/fibre.c $R/librfn/list.c $R/librfn/messageq.c $R/librfn/util.c $R/librfn/posix/time_posix.c -o /tmp/f8 && /tmp/f8
 * Exit status 0: command "a" was dispatched.  Exit status 1: the unrepaired behaviour.
 */
#include <stdio.h>
#include <string.h>
#include <librfn/console.h>
static char seen[80]; static int calls;
static pt_state_t rec(console_t *c) { calls++; strcpy(seen, c->argv[0]); return PT_EXITED; }
static const console_cmd_t A = CONSOLE_CMD_VAR_INIT("a", rec);
static const console_cmd_t AB = CONSOLE_CMD_VAR_INIT("ab", rec);
void console_hwinit(console_t *c) { (void)c; }
int main(void)
{
	static console_t c;
	FILE *null = fopen("/dev/null", "w");
	console_init(&c, null);
	console_register(&A); console_register(&AB);
	const char *s = "ab\b\n";
	for (const char *p = s; *p; p++) console_process(&c, *p);
	printf("stream \"ab\\b\\n\": calls=%d dispatched command name=\"%s\" (the edited line is \"a\")\n", calls, seen);
	return strcmp(seen, "a") != 0;
}
