/*
 * F2 (C04) - native demonstration against the real /repo/librfn/messageq.c.
 * Schedule (run-to-completion nested interrupt, depth 1):
 *   depth-1 queue; sender A claims its only buffer (queue now full);
 *   sender B calls messageq_claim: its optimistic decrement takes num_free from 0 to -1;
 *   BEFORE B's correcting increment an interrupt handler (sender C) calls messageq_claim.
 * With an unsigned 8-bit counter C reads 255 > 0 and is handed A's buffer a second time.
 * Exit status 1 = defect shown, 0 = property holds on this schedule.
 * Build: cc -I/verif/shadow_native -I/repo/include findings/F2_messageq_double_claim.c -o f2 && ./f2
 */
#include <stdio.h>
#include <string.h>
#include "librfn/messageq.h"
#include "../../repo/librfn/messageq.c"

static messageq_t mq;
static int storage[1];
static int armed, fired;
static void *c_got;

void verif_native_hook(const char *op)
{
	/* fire at B's second atomic operation: the fetch_add that undoes the decrement */
	if (armed && !fired && 0 == strcmp(op, "fetch_add")) {
		fired = 1;
		c_got = messageq_claim(&mq); /* sender C, runs to completion inside the "interrupt" */
	}
}

int main(void)
{
	messageq_init(&mq, storage, sizeof(storage), sizeof(storage[0]));
	void *a = messageq_claim(&mq);
	armed = 1;
	void *b = messageq_claim(&mq);
	armed = 0;
	printf("A got %p, B got %p, C (interrupting B) got %p\n", a, b, c_got);
	if (c_got != NULL && c_got == a) {
		printf("DEFECT: the buffer owned by A was handed out a second time while the queue was full\n");
		return 1;
	}
	printf("ok: the full queue refused both B and C\n");
	return 0;
}
