/*
 * Native interposition header (used only by the native demonstrations / interleaving replays, never by CBMC):
 * the real <stdatomic.h> plus a hook call before every atomic operation, so that a single-threaded program can
 * run another operation to completion at a chosen atomic boundary - the "nested interrupt handler" schedule.
 */
#ifndef VERIF_NATIVE_STDATOMIC_H_
#define VERIF_NATIVE_STDATOMIC_H_
#include_next <stdatomic.h>
void verif_native_hook(const char *op);
#undef atomic_load
#define atomic_load(p) (verif_native_hook("load"), atomic_load_explicit(p, memory_order_seq_cst))
#undef atomic_store
#define atomic_store(p, v) (verif_native_hook("store"), atomic_store_explicit(p, v, memory_order_seq_cst))
#undef atomic_fetch_add
#define atomic_fetch_add(p, v) (verif_native_hook("fetch_add"), atomic_fetch_add_explicit(p, v, memory_order_seq_cst))
#undef atomic_fetch_sub
#define atomic_fetch_sub(p, v) (verif_native_hook("fetch_sub"), atomic_fetch_sub_explicit(p, v, memory_order_seq_cst))
#undef atomic_fetch_or
#define atomic_fetch_or(p, v) (verif_native_hook("fetch_or"), atomic_fetch_or_explicit(p, v, memory_order_seq_cst))
#undef atomic_fetch_and
#define atomic_fetch_and(p, v) (verif_native_hook("fetch_and"), atomic_fetch_and_explicit(p, v, memory_order_seq_cst))
#undef atomic_compare_exchange_weak
#define atomic_compare_exchange_weak(p, e, d) (verif_native_hook("cas"), atomic_compare_exchange_strong_explicit(p, e, d, memory_order_seq_cst, memory_order_seq_cst))
#endif
