/*
 * Shadow <stdatomic.h> for the thread-modular (rely/guarantee) harnesses (DESIGN P6/P7).
 *
 * Placed before the system include directories (-I/verif/shadow), so that the unmodified
 * /repo sources (ringbuf.c, messageq.c, fibre.c via librfn/atomic.h) compile against it.
 * Every atomic operation becomes
 *
 *      verif_env(obj, op, order);      interference of all other threads / interrupt handlers
 *                                      (havoc of everything the caller does not own, subject to
 *                                      the invariant) + the memory-order obligations of C07
 *      <the atomic action itself, indivisible, sequentially consistent>
 *      verif_post(obj, op, order, old, new);   ghost update + guarantee obligations
 *
 * verif_env / verif_post are defined by each harness, because the invariant and the ownership
 * discipline are those of the data structure under verification.
 *
 * Atomic types are structs: an atomic object can only be touched through the atomic_* macros; a
 * direct access does not compile (tool error, not an alarm), a cast-away access bypasses the ghost
 * updates and makes the postconditions fail.
 */
#ifndef VERIF_SHADOW_STDATOMIC_H_
#define VERIF_SHADOW_STDATOMIC_H_

#include <stdbool.h>
#include <stddef.h>
#include <stdint.h>

typedef enum {
	memory_order_relaxed = 0,
	memory_order_consume = 1,
	memory_order_acquire = 2,
	memory_order_release = 3,
	memory_order_acq_rel = 4,
	memory_order_seq_cst = 5
} memory_order;

#define VERIF_MO_ACQUIRES(mo) ((mo) == memory_order_acquire || (mo) == memory_order_acq_rel || (mo) == memory_order_seq_cst)
#define VERIF_MO_RELEASES(mo) ((mo) == memory_order_release || (mo) == memory_order_acq_rel || (mo) == memory_order_seq_cst)

typedef struct { unsigned int v; } atomic_uint;
typedef struct { int v; } atomic_int;
typedef struct { unsigned char v; } atomic_uchar;
typedef struct { signed char v; } atomic_schar;
typedef struct { char v; } atomic_char;
typedef struct { _Bool v; } atomic_flag;
typedef struct { _Bool v; } atomic_bool;

#define ATOMIC_VAR_INIT(c) { (c) }
#define ATOMIC_FLAG_INIT { 0 }
#define atomic_init(p, c) ((p)->v = (c))

enum verif_op {
	VOP_LOAD, VOP_STORE, VOP_FETCH_ADD, VOP_FETCH_SUB, VOP_FETCH_OR, VOP_FETCH_AND, VOP_FETCH_XOR,
	VOP_EXCHANGE, VOP_CAS_OK, VOP_CAS_FAIL, VOP_CAS, VOP_FENCE, VOP_SIGNAL_FENCE
};

/* defined by the harness */
void verif_env(const void *obj, enum verif_op op, memory_order mo);
void verif_post(const void *obj, enum verif_op op, memory_order mo, unsigned long long oldv, unsigned long long newv);

#define VERIF_DEF_OPS(T, V, S)                                                                   \
	static inline V verif_load_##S(T *p, memory_order mo)                                    \
	{                                                                                        \
		verif_env(p, VOP_LOAD, mo);                                                      \
		V v = p->v;                                                                      \
		verif_post(p, VOP_LOAD, mo, (unsigned long long)v, (unsigned long long)v);       \
		return v;                                                                        \
	}                                                                                        \
	static inline void verif_store_##S(T *p, V d, memory_order mo)                           \
	{                                                                                        \
		verif_env(p, VOP_STORE, mo);                                                     \
		V o = p->v;                                                                      \
		p->v = d;                                                                        \
		verif_post(p, VOP_STORE, mo, (unsigned long long)o, (unsigned long long)d);      \
	}                                                                                        \
	static inline V verif_rmw_##S(T *p, V arg, enum verif_op op, memory_order mo)            \
	{                                                                                        \
		verif_env(p, op, mo);                                                            \
		V o = p->v;                                                                      \
		V n = op == VOP_FETCH_ADD ? (V)(o + arg) : op == VOP_FETCH_SUB ? (V)(o - arg) :  \
		      op == VOP_FETCH_OR ? (V)(o | arg) : op == VOP_FETCH_AND ? (V)(o & arg) :   \
		      op == VOP_FETCH_XOR ? (V)(o ^ arg) : arg;                                  \
		p->v = n;                                                                        \
		verif_post(p, op, mo, (unsigned long long)o, (unsigned long long)n);             \
		return o;                                                                        \
	}                                                                                        \
	static inline _Bool verif_cas_##S(T *p, V *expected, V desired, memory_order ok, memory_order fail) \
	{                                                                                        \
		verif_env(p, VOP_CAS, ok);                                                       \
		V o = p->v;                                                                      \
		if (o == *expected) {                                                            \
			p->v = desired;                                                          \
			verif_post(p, VOP_CAS_OK, ok, (unsigned long long)o, (unsigned long long)desired); \
			return 1;                                                                \
		}                                                                                \
		*expected = o;                                                                   \
		verif_post(p, VOP_CAS_FAIL, fail, (unsigned long long)o, (unsigned long long)o); \
		return 0;                                                                        \
	}

VERIF_DEF_OPS(atomic_uint, unsigned int, uint)
VERIF_DEF_OPS(atomic_int, int, int)
VERIF_DEF_OPS(atomic_uchar, unsigned char, uchar)
VERIF_DEF_OPS(atomic_schar, signed char, schar)
VERIF_DEF_OPS(atomic_char, char, char)

#define VERIF_DISPATCH(p, name)                                                                  \
	_Generic((p), atomic_uint *: verif_##name##_uint, atomic_int *: verif_##name##_int,      \
		 atomic_uchar *: verif_##name##_uchar, atomic_schar *: verif_##name##_schar,       \
		 atomic_char *: verif_##name##_char)

#define atomic_load_explicit(p, mo) VERIF_DISPATCH(p, load)(p, mo)
#define atomic_load(p) atomic_load_explicit(p, memory_order_seq_cst)
#define atomic_store_explicit(p, d, mo) VERIF_DISPATCH(p, store)(p, d, mo)
#define atomic_store(p, d) atomic_store_explicit(p, d, memory_order_seq_cst)
#define atomic_fetch_add_explicit(p, a, mo) VERIF_DISPATCH(p, rmw)(p, a, VOP_FETCH_ADD, mo)
#define atomic_fetch_add(p, a) atomic_fetch_add_explicit(p, a, memory_order_seq_cst)
#define atomic_fetch_sub_explicit(p, a, mo) VERIF_DISPATCH(p, rmw)(p, a, VOP_FETCH_SUB, mo)
#define atomic_fetch_sub(p, a) atomic_fetch_sub_explicit(p, a, memory_order_seq_cst)
#define atomic_fetch_or_explicit(p, a, mo) VERIF_DISPATCH(p, rmw)(p, a, VOP_FETCH_OR, mo)
#define atomic_fetch_or(p, a) atomic_fetch_or_explicit(p, a, memory_order_seq_cst)
#define atomic_fetch_and_explicit(p, a, mo) VERIF_DISPATCH(p, rmw)(p, a, VOP_FETCH_AND, mo)
#define atomic_fetch_and(p, a) atomic_fetch_and_explicit(p, a, memory_order_seq_cst)
#define atomic_fetch_xor_explicit(p, a, mo) VERIF_DISPATCH(p, rmw)(p, a, VOP_FETCH_XOR, mo)
#define atomic_fetch_xor(p, a) atomic_fetch_xor_explicit(p, a, memory_order_seq_cst)
#define atomic_exchange_explicit(p, a, mo) VERIF_DISPATCH(p, rmw)(p, a, VOP_EXCHANGE, mo)
#define atomic_exchange(p, a) atomic_exchange_explicit(p, a, memory_order_seq_cst)
#define atomic_compare_exchange_strong_explicit(p, e, d, ok, fail) VERIF_DISPATCH(p, cas)(p, e, d, ok, fail)
#define atomic_compare_exchange_strong(p, e, d) atomic_compare_exchange_strong_explicit(p, e, d, memory_order_seq_cst, memory_order_seq_cst)
/* a weak compare-exchange may also fail spuriously; a spurious failure only repeats the loop body from a state
 * the loop-cut rule (P7) already covers, so it is modelled like the strong form */
#define atomic_compare_exchange_weak_explicit(p, e, d, ok, fail) VERIF_DISPATCH(p, cas)(p, e, d, ok, fail)
#define atomic_compare_exchange_weak(p, e, d) atomic_compare_exchange_weak_explicit(p, e, d, memory_order_seq_cst, memory_order_seq_cst)

static inline void atomic_thread_fence(memory_order mo)
{
	verif_env((const void *)0, VOP_FENCE, mo);
	verif_post((const void *)0, VOP_FENCE, mo, 0, 0);
}
static inline void atomic_signal_fence(memory_order mo)
{
	verif_env((const void *)0, VOP_SIGNAL_FENCE, mo);
	verif_post((const void *)0, VOP_SIGNAL_FENCE, mo, 0, 0);
}

#endif
